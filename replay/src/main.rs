//! replay <witness.json>  |  replay --gate <name>
//! witness.json: {"harness": "<name>", "values": [[u8,..],..]}  -> runs the harness natively on exactly
//! the solver's values (real dashmap, real parser, real Unicode tables, real file system under PLSV_ROOT)
//! and prints one JSON object: failed check ids, panic message, notes describing the concrete case.
use plsv::kx::native as nx;
use std::panic;

fn main() {
    let args: Vec<String> = std::env::args().collect();
    if args.len() >= 3 && args[1] == "--gate" {
        let ok = plsv::gates::run(&args[2]);
        std::process::exit(if ok { 0 } else { 1 });
    }
    let path = &args[1];
    let text = std::fs::read_to_string(path).expect("read witness");
    let v: serde_json::Value = serde_json::from_str(&text).expect("witness json");
    let name = v["harness"].as_str().expect("harness").to_string();
    let values: Vec<Vec<u8>> = v["values"].as_array().expect("values").iter()
        .map(|a| a.as_array().unwrap().iter().map(|b| b.as_u64().unwrap() as u8).collect()).collect();
    let f = match plsv::registry::lookup(&name) {
        Some(f) => f,
        None => { println!("{}", serde_json::json!({"error": format!("unknown harness {}", name)})); std::process::exit(2); }
    };
    nx::load(values);
    panic::set_hook(Box::new(|_| {}));
    let r = panic::catch_unwind(f);
    let _ = panic::take_hook();
    let panic_msg: Option<String> = match r {
        Ok(()) => None,
        Err(e) => Some(if let Some(s) = e.downcast_ref::<&str>() { s.to_string() }
                       else if let Some(s) = e.downcast_ref::<String>() { s.clone() } else { "panic".to_string() }),
    };
    let assume_broken = nx::ASSUME_BROKEN.with(|c| *c.borrow());
    let out = serde_json::json!({
        "harness": name,
        "failed": nx::FAILED.with(|c| c.borrow().clone()),
        "passed": nx::PASSED.with(|c| c.borrow().len()),
        "notes": nx::NOTES.with(|c| c.borrow().clone()),
        "panic": if assume_broken { None } else { panic_msg },
        "assume_broken": assume_broken,
        "witness_underflow": nx::UNDERFLOW.with(|c| *c.borrow()),
        "profile": if cfg!(debug_assertions) { "dev" } else { "release" },
    });
    println!("{}", out);
}
