//! scratch probes (not part of any property)
use crate::fixtures::{FixtureDatabase, FixtureDefinition, FixtureUsage};
use crate::kx::{any, assume};
use crate::world::*;
use std::path::{Path, PathBuf};
use std::sync::Arc;

fn mini(text: &'static str, uline: usize, s: usize, e: usize) -> FixtureDatabase {
    let db = FixtureDatabase::new();
    let mut w = World::new(&[C0, U]);
    w.def(C0, "f", 4);
    let mut v = Vec::with_capacity(2);
    v.push(mk_def(&w.defs[0]));
    db.definitions.insert("f".to_string(), v);
    db.file_cache.insert(PathBuf::from(path(U)), Arc::new(text.to_string()));
    let mut us = Vec::with_capacity(2);
    us.push(mk_use(U, "f", uline, s, e));
    db.usages.insert(PathBuf::from(path(U)), us);
    std::mem::forget(w);
    db
}
fn q(text: &'static str, uline: usize, s: usize, e: usize, maxcol: u32) {
    let db = mini(text, uline, s, e);
    let col: u32 = any();
    assume(col < maxcol);
    let got = db.find_fixture_definition(Path::new(path(U)), (uline - 1) as u32, col);
    let inside = (col as usize) >= s && (col as usize) < e;
    check!("probe.inside", !inside || got.as_ref().map(|d| d.line) == Some(4));
    check!("probe.outside", inside || got.is_none());
    reach!("probe.end");
    std::mem::forget(got); std::mem::forget(db);
}
macro_rules! parm {
    ($id:ident, $body:expr) => {
        #[cfg_attr(kani, kani::proof)]
        #[cfg_attr(kani, kani::stub(std::path::Path::exists, crate::stubs::path_exists_false))]
        #[cfg_attr(kani, kani::stub(crate::fixtures::FixtureDatabase::is_fixture_imported_in_file, crate::world::stub_is_imported))]
        #[cfg_attr(kani, kani::stub(core::unicode::unicode_data::alphabetic::lookup, crate::stubs::uni_alphabetic))]
        #[cfg_attr(kani, kani::stub(core::unicode::unicode_data::n::lookup, crate::stubs::uni_numeric))]
        pub fn $id() { $body }
    };
}
/// @harness id=probe_1line props=PROBE unwind=26 mem=8 cap=600
/// one-line file
parm!(probe_1line, q("def test_x(f): pass\n", 1, 11, 12, 24));
/// @harness id=probe_8line props=PROBE unwind=26 mem=8 cap=600
/// 8-line file
parm!(probe_8line, q("import pytest\n#\n#\n#\n#\n#\n#\ndef test_x(f): pass\n", 8, 11, 12, 24));
/// @harness id=probe_1line_narrow props=PROBE unwind=26 mem=8 cap=600
/// one-line file, col < 4 window
parm!(probe_1line_narrow, { 
    let db = mini("def test_x(f): pass\n", 1, 11, 12);
    let col: u32 = any();
    assume(col >= 9 && col < 14);
    let got = db.find_fixture_definition(Path::new(path(U)), 0, col);
    let inside = col == 11;
    check!("probe.inside", !inside || got.as_ref().map(|d| d.line) == Some(4));
    check!("probe.outside", inside || got.is_none());
    reach!("probe.end");
    std::mem::forget(got); std::mem::forget(db);
});

fn uw(text: bool) -> World {
    let mut w = World::new(&[C0, U]);
    w.def(C0, "fx1", 4);
    let g = w.def(U, "g", 4);
    w.defs[g].deps = vec!["fx1"];
    w.test(U, 8, &["fx1"]);
    w.tests[0].usefix = Some("fx1");
    w.tests[0].indirect = Some("fx1");
    w.pytestmark_u = Some("fx1");
    w.with_text = text;
    w
}
/// @harness id=probe_m1 props=PROBE unwind=20 mem=8 cap=200
/// usages, no text
#[cfg_attr(kani, kani::proof)]
pub fn probe_m1() { let w = uw(false); let db = build(&w, WITH_USAGES); reach!("m1"); std::mem::forget(db); std::mem::forget(w); }
/// @harness id=probe_m2 props=PROBE unwind=20 mem=8 cap=200
/// text, no usages
#[cfg_attr(kani, kani::proof)]
pub fn probe_m2() { let w = uw(true); let db = build(&w, DEFS_ONLY); reach!("m2"); std::mem::forget(db); std::mem::forget(w); }
/// @harness id=probe_m3 props=PROBE unwind=20 mem=8 cap=200
/// only usages_of_file + manual map
#[cfg_attr(kani, kani::proof)]
pub fn probe_m3() {
    let w = uw(false);
    let us = usages_of_file(&w, U);
    assert!(us.len() == 4);
    assert!(us[0].name.len() == 3);
    assert!(us[1].name == us[0].name);
    reach!("m3"); std::mem::forget(us); std::mem::forget(w);
}
/// @harness id=probe_m4 props=PROBE unwind=20 mem=8 cap=200
/// plain Vec growth
#[cfg_attr(kani, kani::proof)]
pub fn probe_m4() {
    let mut v: Vec<(PathBuf, FixtureUsage)> = Vec::new();
    for i in 0..5 { v.push((PathBuf::from(path(U)), mk_use(U, "fx1", 2 + i, 3, 6))); }
    assert!(v[0].1.name.len() == 3);
    assert!(v[4].1.name == v[0].1.name);
    reach!("m4"); std::mem::forget(v);
}
/// @harness id=probe_m5 props=PROBE unwind=20 mem=8 cap=200
/// shim entry().or_default().push()
#[cfg_attr(kani, kani::proof)]
pub fn probe_m5() {
    let m: dashmap::DashMap<String, Vec<(PathBuf, FixtureUsage)>> = dashmap::DashMap::new();
    for i in 0..5 { m.entry("fx1".to_string()).or_default().push((PathBuf::from(path(U)), mk_use(U, "fx1", 2 + i, 3, 6))); }
    let g = m.get("fx1").unwrap();
    assert!(g.len() == 5);
    assert!(g[4].1.name == g[0].1.name);
    reach!("m5");
    std::mem::forget(g); std::mem::forget(m);
}
/// @harness id=probe_m6 props=PROBE unwind=20 mem=8 cap=200
/// shim entry().or_default().push() with 2 keys
#[cfg_attr(kani, kani::proof)]
pub fn probe_m6() {
    let m: dashmap::DashMap<String, Vec<(PathBuf, FixtureUsage)>> = dashmap::DashMap::new();
    m.entry("fx1".to_string()).or_default().push((PathBuf::from(path(U)), mk_use(U, "fx1", 2, 3, 6)));
    m.entry("g".to_string()).or_default().push((PathBuf::from(path(U)), mk_use(U, "g", 3, 3, 6)));
    m.entry("fx1".to_string()).or_default().push((PathBuf::from(path(U)), mk_use(U, "fx1", 4, 3, 6)));
    let g = m.get("fx1").unwrap();
    assert!(g.len() == 2);
    reach!("m6");
    std::mem::forget(g); std::mem::forget(m);
}
/// @harness id=probe_m7 props=PROBE unwind=20 mem=8 cap=200
/// get_mut / insert instead of entry
#[cfg_attr(kani, kani::proof)]
pub fn probe_m7() {
    let m: dashmap::DashMap<String, Vec<(PathBuf, FixtureUsage)>> = dashmap::DashMap::new();
    for i in 0..5 {
        let item = (PathBuf::from(path(U)), mk_use(U, "fx1", 2 + i, 3, 6));
        let had = if let Some(mut v) = m.get_mut("fx1") { v.push(item.clone()); true } else { false };
        if !had { let mut v = Vec::with_capacity(8); v.push(item); m.insert("fx1".to_string(), v); }
    }
    let g = m.get("fx1").unwrap();
    assert!(g.len() == 5);
    assert!(g[4].1.name == g[0].1.name);
    reach!("m7");
    std::mem::forget(g); std::mem::forget(m);
}
/// @harness id=probe_m8 props=PROBE unwind=20 mem=8 cap=200
/// entry twice only
#[cfg_attr(kani, kani::proof)]
pub fn probe_m8() {
    let m: dashmap::DashMap<String, Vec<(PathBuf, FixtureUsage)>> = dashmap::DashMap::new();
    for i in 0..2 { m.entry("fx1".to_string()).or_default().push((PathBuf::from(path(U)), mk_use(U, "fx1", 2 + i, 3, 6))); }
    let g = m.get("fx1").unwrap();
    assert!(g.len() == 2);
    reach!("m8");
    std::mem::forget(g); std::mem::forget(m);
}
/// @harness id=probe_m9 props=PROBE unwind=20 mem=8 cap=200
/// entry once, u32 values
#[cfg_attr(kani, kani::proof)]
pub fn probe_m9() {
    let m: dashmap::DashMap<String, Vec<u32>> = dashmap::DashMap::new();
    for i in 0..3 { m.entry("fx1".to_string()).or_default().push(i); }
    let g = m.get("fx1").unwrap();
    assert!(g.len() == 3);
    reach!("m9");
    std::mem::forget(g); std::mem::forget(m);
}
/// @harness id=probe_q1 props=PROBE unwind=30 mem=8 cap=600
/// one concrete position query on the generated chain world
#[cfg_attr(kani, kani::proof)]
#[cfg_attr(kani, kani::stub(std::path::Path::exists, crate::stubs::path_exists_false))]
#[cfg_attr(kani, kani::stub(crate::fixtures::FixtureDatabase::is_fixture_imported_in_file, crate::world::stub_is_imported))]
#[cfg_attr(kani, kani::stub(core::unicode::unicode_data::alphabetic::lookup, crate::stubs::uni_alphabetic))]
#[cfg_attr(kani, kani::stub(core::unicode::unicode_data::n::lookup, crate::stubs::uni_numeric))]
#[cfg_attr(kani, kani::stub(core::slice::memchr::memchr, crate::stubs::memchr_bytewise))]
pub fn probe_q1() {
    let mut w = World::new(&[C0, C1, U]);
    w.def(C0, "f", 6); let i = w.def(C1, "f", 4); w.defs[i].deps = vec!["f"];
    w.with_text = true;
    let db = build(&w, WITH_USAGES);
    let got = db.find_fixture_definition(Path::new(path(C1)), 3, 6);
    assert!(got.as_ref().map(|d| d.line) == Some(6));
    reach!("q1"); std::mem::forget(got); std::mem::forget(db); std::mem::forget(w);
}
/// @harness id=probe_q0 props=PROBE unwind=30 mem=8 cap=600
/// build only
#[cfg_attr(kani, kani::proof)]
pub fn probe_q0() {
    let mut w = World::new(&[C0, C1, U]);
    w.def(C0, "f", 6); let i = w.def(C1, "f", 4); w.defs[i].deps = vec!["f"];
    w.with_text = true;
    let db = build(&w, WITH_USAGES);
    reach!("q0"); std::mem::forget(db); std::mem::forget(w);
}

pub fn stub_not_stdlib(_db: &FixtureDatabase, _m: &str) -> bool { false }
/// @harness id=probe_imp props=PROBE unwind=24 mem=12 cap=1500
/// REAL import walk: S and M define f, C1 `from .m import *`
#[cfg_attr(kani, kani::proof)]
#[cfg_attr(kani, kani::stub(std::path::Path::exists, crate::stubs::path_exists_false))]
#[cfg_attr(kani, kani::stub(std::path::Path::is_dir, crate::stubs::path_is_dir_false))]
#[cfg_attr(kani, kani::stub(std::path::Path::canonicalize, crate::stubs::canonicalize_err))]
#[cfg_attr(kani, kani::stub(std::hash::RandomState::new, crate::stubs::fixed_random_state))]
#[cfg_attr(kani, kani::stub(rustpython_parser::parse, crate::oracle::oracle_parse))]
#[cfg_attr(kani, kani::stub(std::arch::x86_64::__cpuid_count, crate::stubs::cpuid_none))]
#[cfg_attr(kani, kani::stub(core::slice::memchr::memchr, crate::stubs::memchr_bytewise))]
#[cfg_attr(kani, kani::stub(crate::fixtures::FixtureDatabase::is_standard_library_module, stub_not_stdlib))]
pub fn probe_imp() {
    let mut w = World::new(&[S, M, C1, U]);
    w.def(S, "f", 4); w.def(M, "f", 6);
    w.imp_c1 = Imp { on: true, kind: 0 };
    w.with_text = true;
    let db = build(&w, FULL);
    let got = db.find_closest_definition(Path::new(path(U)), "f");
    assert!(got.is_some());
    reach!("imp"); std::mem::forget(got); std::mem::forget(db); std::mem::forget(w);
}

pub fn stub_pad<'a>(f: &mut std::fmt::Formatter<'a>, s: &str) -> std::fmt::Result where 'a: 'a { f.write_str(s) }
fn ident_probe() {
    let id = rustpython_parser::ast::Identifier::new("pytest");
    let s = id.to_string();
    let mut v: Vec<String> = Vec::with_capacity(4);
    v.push(s);
    v.push("other".to_string());
    assert!(v.contains(&"pytest".to_string()));
    assert!(!v.contains(&"pytesu".to_string()));
    reach!("q0");
    std::mem::forget(v);
}
/// @harness id=probe_ident props=PROBE unwind=20 mem=6 cap=300
/// Identifier::to_string lengths
#[cfg_attr(kani, kani::proof)]
pub fn probe_ident() { ident_probe() }
/// @harness id=probe_ident_pad props=PROBE unwind=20 mem=6 cap=300
/// same with Formatter::pad stubbed
#[cfg_attr(kani, kani::proof)]
#[cfg_attr(kani, kani::stub(core::fmt::Formatter::pad, stub_pad))]
pub fn probe_ident_pad() { ident_probe() }
/// @harness id=probe_mv props=PROBE unwind=20 mem=6 cap=300
/// set moved out of the map shim
#[cfg_attr(kani, kani::proof)]
pub fn probe_mv() {
    use crate::coll::HashSet;
    let m: dashmap::DashMap<PathBuf, HashSet<String>> = dashmap::DashMap::new();
    let mut s = HashSet::new(); s.insert("f".to_string()); s.insert("gg".to_string());
    m.insert(PathBuf::from(path(C1)), s);
    m.insert(PathBuf::from(path(U)), HashSet::new());
    let (_, names) = m.remove(Path::new(path(C1))).unwrap();
    let mut t = HashSet::new();
    for n in names { t.insert(n); }
    assert!(t.contains("gg"));
    assert!(!t.contains("hh"));
    reach!("q0");
    std::mem::forget(t); std::mem::forget(m);
}
/// @harness id=probe_seedcmp props=PROBE unwind=18 mem=8 cap=600 unwindset=memchr_seq:400;memchr_bytewise:64;sip:48
/// seed C_F then compare with fresh (no analysis)
#[cfg_attr(kani, kani::proof)]
#[cfg_attr(kani, kani::stub(std::path::Path::canonicalize, crate::stubs::canonicalize_err))]
#[cfg_attr(kani, kani::stub(core::slice::memchr::memchr, crate::stubs::memchr_bytewise))]
pub fn probe_seedcmp() {
    use crate::h_hist::*; use crate::oracle::*;
    let db = FixtureDatabase::new();
    let first = fresh_c_f(PC);
    seed_file_state(&db, PC, T_C_F, &first);
    let ok = file_state_is(&db, PC, &first, true);
    assert!(ok);
    reach!("q0");
    std::mem::forget(first); std::mem::forget(db);
}
/// @harness id=probe_seedonly props=PROBE unwind=18 mem=8 cap=600 unwindset=memchr_seq:400;memchr_bytewise:64;sip:48
/// seed C_F only
#[cfg_attr(kani, kani::proof)]
#[cfg_attr(kani, kani::stub(std::path::Path::canonicalize, crate::stubs::canonicalize_err))]
#[cfg_attr(kani, kani::stub(core::slice::memchr::memchr, crate::stubs::memchr_bytewise))]
pub fn probe_seedonly() {
    use crate::h_hist::*; use crate::oracle::*;
    let db = FixtureDatabase::new();
    let first = fresh_c_f(PC);
    seed_file_state(&db, PC, T_C_F, &first);
    assert!(db.definitions.len() == 1);
    reach!("q0");
    std::mem::forget(first); std::mem::forget(db);
}
macro_rules! pr_arm {
    ($id:ident, $body:expr) => {
        #[cfg_attr(kani, kani::proof)]
        #[cfg_attr(kani, kani::stub(rustpython_parser::parse, crate::oracle::oracle_parse_hist))]
        #[cfg_attr(kani, kani::stub(std::path::Path::canonicalize, crate::stubs::canonicalize_err))]
        #[cfg_attr(kani, kani::stub(std::path::Path::exists, crate::stubs::path_exists_false))]
        #[cfg_attr(kani, kani::stub(std::hash::RandomState::new, crate::stubs::fixed_random_state))]
        #[cfg_attr(kani, kani::stub(core::slice::memchr::memchr, crate::stubs::memchr_bytewise))]
        pub fn $id() { $body }
    };
}
/// @harness id=probe_parse_disc props=PROBE unwind=18 mem=8 cap=600
/// discriminant of the oracle's Result
pr_arm!(probe_parse_disc, {
    let r = rustpython_parser::parse(crate::oracle::T_C_BAD, rustpython_parser::Mode::Module, "");
    match &r { Ok(_) => { reach!("m1"); } Err(_) => { reach!("m2"); } }
    std::mem::forget(r);
});
/// @harness id=probe_an_bad props=PROBE unwind=18 mem=8 cap=900 unwindset=memchr_seq:400;memchr_bytewise:64;sip:48;rec~ParseErrorType:3;rec~LexicalErrorType:3;rec~FStringErrorType:3
/// analyze_file on the unparsable text only
pr_arm!(probe_an_bad, {
    let db = FixtureDatabase::new();
    db.analyze_file(PathBuf::from(crate::h_hist::PC), crate::oracle::T_C_BAD);
    assert!(db.definitions.len() == 0);
    reach!("q0");
    std::mem::forget(db);
});
/// @harness id=probe_an_f props=PROBE unwind=18 mem=8 cap=900 unwindset=memchr_seq:400;memchr_bytewise:64;sip:48;rec~ParseErrorType:3;rec~LexicalErrorType:3;rec~FStringErrorType:3
/// analyze_file on C_F only
pr_arm!(probe_an_f, {
    let db = FixtureDatabase::new();
    db.analyze_file(PathBuf::from(crate::h_hist::PC), crate::oracle::T_C_F);
    assert!(db.definitions.len() == 1);
    reach!("q0");
    std::mem::forget(db);
});
fn like_analyze(content: &str) -> usize {
    let parsed = match rustpython_parser::parse(content, rustpython_parser::Mode::Module, "") {
        Ok(ast) => ast,
        Err(_e) => { return 0; }
    };
    let n = if let rustpython_parser::ast::Mod::Module(m) = parsed { m.body.len() } else { 77 };
    n + 1
}
/// @harness id=probe_like_analyze props=PROBE unwind=18 mem=8 cap=600 unwindset=rec~ParseErrorType:3;rec~LexicalErrorType:3;rec~FStringErrorType:3
/// the repo's match-by-value on the oracle's Result
pr_arm!(probe_like_analyze, {
    let n = like_analyze(crate::oracle::T_C_BAD);
    if n == 0 { reach!("m2"); } else { reach!("m1"); }
});
fn pv(text: &str, forget: bool) -> usize {
    match rustpython_parser::parse(text, rustpython_parser::Mode::Module, "") {
        Ok(ast) => { let n = if let rustpython_parser::ast::Mod::Module(m) = &ast { m.body.len() } else { 77 }; if forget { std::mem::forget(ast); } n + 1 }
        Err(e) => { if forget { std::mem::forget(e); } 0 }
    }
}
/// @harness id=probe_pv_bad_forget props=PROBE unwind=18 mem=8 cap=300 unwindset=rec~ParseErrorType:3;rec~LexicalErrorType:3;rec~FStringErrorType:3
/// by-value match, unparsable, forget
pr_arm!(probe_pv_bad_forget, { let n = pv(crate::oracle::T_C_BAD, true); assert!(n == 0); reach!("q0"); });
/// @harness id=probe_pv_bad_drop props=PROBE unwind=18 mem=8 cap=300 unwindset=rec~ParseErrorType:3;rec~LexicalErrorType:3;rec~FStringErrorType:3
/// by-value match, unparsable, normal drop
pr_arm!(probe_pv_bad_drop, { let n = pv(crate::oracle::T_C_BAD, false); assert!(n == 0); reach!("q0"); });
/// @harness id=probe_pv_f_forget props=PROBE unwind=18 mem=8 cap=300 unwindset=rec~ParseErrorType:3;rec~LexicalErrorType:3;rec~FStringErrorType:3
/// by-value match, C_F, forget
pr_arm!(probe_pv_f_forget, { let n = pv(crate::oracle::T_C_F, true); assert!(n == 3); reach!("q0"); });
/// @harness id=probe_pv_f_drop props=PROBE unwind=18 mem=8 cap=300 unwindset=rec~ParseErrorType:3;rec~LexicalErrorType:3;rec~FStringErrorType:3
/// by-value match, C_F, normal drop
pr_arm!(probe_pv_f_drop, { let n = pv(crate::oracle::T_C_F, false); assert!(n == 3); reach!("q0"); });
macro_rules! pr2_arm {
    ($id:ident, $body:expr) => {
        #[cfg_attr(kani, kani::proof)]
        #[cfg_attr(kani, kani::stub(rustpython_parser::parse, crate::oracle::oracle_parse_hist))]
        #[cfg_attr(kani, kani::stub(std::path::Path::canonicalize, crate::stubs::canonicalize_err))]
        #[cfg_attr(kani, kani::stub(std::path::Path::exists, crate::stubs::path_exists_false))]
        #[cfg_attr(kani, kani::stub(core::slice::memchr::memchr, crate::stubs::memchr_bytewise))]
        #[cfg_attr(kani, kani::stub(crate::fixtures::FixtureDatabase::get_imported_fixtures, crate::h_hist::stub_no_imports))]
        #[cfg_attr(kani, kani::stub(crate::fixtures::FixtureDatabase::is_fixture_imported_in_file, crate::h_hist::stub_not_imported))]
        pub fn $id() { $body }
    };
}
/// @harness id=probe_c07a props=PROBE unwind=18 mem=12 cap=600 unwindset=memchr_seq:400;memchr_bytewise:64;sip:48
/// seed + one get_available_fixtures
pr2_arm!(probe_c07a, {
    use crate::h_hist::*; use crate::oracle::*;
    let db = FixtureDatabase::new();
    let first = fresh_c_f(PC);
    seed_file_state(&db, PC, T_C_F, &first);
    let av = db.get_available_fixtures(Path::new(PU));
    assert!(av.len() == 1);
    reach!("q0");
    std::mem::forget(av); std::mem::forget(first); std::mem::forget(db);
});
/// @harness id=probe_c07b props=PROBE unwind=18 mem=12 cap=600 unwindset=memchr_seq:400;memchr_bytewise:64;sip:48
/// seed + two get_available_fixtures (second one served from the cache)
pr2_arm!(probe_c07b, {
    use crate::h_hist::*; use crate::oracle::*;
    let db = FixtureDatabase::new();
    let first = fresh_c_f(PC);
    seed_file_state(&db, PC, T_C_F, &first);
    let av = db.get_available_fixtures(Path::new(PU));
    let av2 = db.get_available_fixtures(Path::new(PU));
    assert!(av.len() == 1 && av2.len() == 1);
    reach!("q0");
    std::mem::forget(av); std::mem::forget(av2); std::mem::forget(first); std::mem::forget(db);
});
/// @harness id=probe_c07c props=PROBE unwind=18 mem=12 cap=600 unwindset=memchr_seq:400;memchr_bytewise:64;sip:48
/// seed + available + cleanup_file_cache + available
pr2_arm!(probe_c07c, {
    use crate::h_hist::*; use crate::oracle::*;
    let db = FixtureDatabase::new();
    let first = fresh_c_f(PC);
    seed_file_state(&db, PC, T_C_F, &first);
    let av = db.get_available_fixtures(Path::new(PU));
    db.cleanup_file_cache(Path::new(PC));
    let av2 = db.get_available_fixtures(Path::new(PU));
    assert!(av.len() == av2.len());
    reach!("q0");
    std::mem::forget(av); std::mem::forget(av2); std::mem::forget(first); std::mem::forget(db);
});
/// @harness id=probe_c07d props=PROBE unwind=18 mem=12 cap=600 unwindset=memchr_seq:400;memchr_bytewise:64;sip:48
/// seed + available + analyze(empty) + available, compare lengths only
pr2_arm!(probe_c07d, {
    use crate::h_hist::*; use crate::oracle::*;
    let db = FixtureDatabase::new();
    let first = fresh_c_f(PC);
    seed_file_state(&db, PC, T_C_F, &first);
    let av = db.get_available_fixtures(Path::new(PU));
    db.analyze_file(PathBuf::from(PC), T_C_EMPTY);
    let av2 = db.get_available_fixtures(Path::new(PU));
    assert!(av.len() == 1);
    if crate::kf::C07_NO_VERSION_BUMP_ON_REMOVAL { check!("KF:c07.available.warm_is_cold", av2.len() == 0); } else { check!("c07.available.warm_is_cold", av2.len() == 0); }
    reach!("q0");
    std::mem::forget(av); std::mem::forget(av2); std::mem::forget(first); std::mem::forget(db);
});
