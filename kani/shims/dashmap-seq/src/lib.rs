//! Sequential, solver-friendly stand-in for dashmap 6.1 (API subset used by pytest-language-server).
//! Association list + borrow counters. NOT thread-safe; used only in single-threaded Kani harness builds.
use std::borrow::Borrow;
use std::cell::{Cell, UnsafeCell};
use std::collections::hash_map::RandomState;
use std::fmt;
use std::hash::Hash;
use std::marker::PhantomData;
use std::ops::{Deref, DerefMut};

pub struct DashMap<K, V, S = RandomState> {
    items: UnsafeCell<Vec<(K, V)>>,
    readers: Cell<usize>,
    writers: Cell<usize>,
    _s: PhantomData<S>,
}
unsafe impl<K: Send, V: Send, S> Send for DashMap<K, V, S> {}
unsafe impl<K: Send + Sync, V: Send + Sync, S> Sync for DashMap<K, V, S> {}

impl<K, V, S> fmt::Debug for DashMap<K, V, S> {
    fn fmt(&self, f: &mut fmt::Formatter<'_>) -> fmt::Result { f.write_str("DashMap") }
}
impl<K: Eq + Hash, V> Default for DashMap<K, V, RandomState> {
    fn default() -> Self { Self::new() }
}

pub mod mapref {
    pub mod one {
        pub use crate::{Ref, RefMut};
    }
    pub mod multiple {
        pub use crate::RefMulti;
    }
    pub mod entry {
        pub use crate::Entry;
    }
}

pub struct Ref<'a, K, V> { k: &'a K, v: &'a V, cnt: &'a Cell<usize> }
impl<'a, K, V> Ref<'a, K, V> {
    pub fn key(&self) -> &K { self.k }
    pub fn value(&self) -> &V { self.v }
    pub fn pair(&self) -> (&K, &V) { (self.k, self.v) }
}
impl<'a, K, V> Deref for Ref<'a, K, V> { type Target = V; fn deref(&self) -> &V { self.v } }
impl<'a, K, V> Drop for Ref<'a, K, V> { fn drop(&mut self) { self.cnt.set(self.cnt.get() - 1); } }

pub struct RefMut<'a, K, V> { k: &'a K, v: &'a mut V, cnt: &'a Cell<usize> }
impl<'a, K, V> RefMut<'a, K, V> {
    pub fn key(&self) -> &K { self.k }
    pub fn value(&self) -> &V { self.v }
    pub fn value_mut(&mut self) -> &mut V { self.v }
}
impl<'a, K, V> Deref for RefMut<'a, K, V> { type Target = V; fn deref(&self) -> &V { self.v } }
impl<'a, K, V> DerefMut for RefMut<'a, K, V> { fn deref_mut(&mut self) -> &mut V { self.v } }
impl<'a, K, V> Drop for RefMut<'a, K, V> { fn drop(&mut self) { self.cnt.set(self.cnt.get() - 1); } }

pub struct RefMulti<'a, K, V> { k: &'a K, v: &'a V }
impl<'a, K, V> RefMulti<'a, K, V> {
    pub fn key(&self) -> &K { self.k }
    pub fn value(&self) -> &V { self.v }
    pub fn pair(&self) -> (&K, &V) { (self.k, self.v) }
}
impl<'a, K, V> Deref for RefMulti<'a, K, V> { type Target = V; fn deref(&self) -> &V { self.v } }

pub struct Iter<'a, K, V> { items: &'a [(K, V)], pos: usize, cnt: &'a Cell<usize> }
impl<'a, K, V> Iterator for Iter<'a, K, V> {
    type Item = RefMulti<'a, K, V>;
    fn next(&mut self) -> Option<Self::Item> {
        if self.pos < self.items.len() {
            let (k, v) = &self.items[self.pos];
            self.pos += 1;
            Some(RefMulti { k, v })
        } else { None }
    }
}
impl<'a, K, V> Drop for Iter<'a, K, V> { fn drop(&mut self) { self.cnt.set(self.cnt.get() - 1); } }

/// `entry()` result. Deliberately a plain struct (no enum holding the key): moving a `String` key through an
/// enum payload made every later length read non-constant for CBMC (memcmp loops ran to the unwind bound).
pub struct Entry<'a, K, V, S = RandomState> { map: &'a DashMap<K, V, S>, key: K, idx: usize, found: bool }
impl<'a, K: Eq + Hash, V, S> Entry<'a, K, V, S> {
    pub fn key(&self) -> &K { &self.key }
    pub fn or_default(self) -> RefMut<'a, K, V> where V: Default { self.or_insert_with(V::default) }
    pub fn or_insert(self, v: V) -> RefMut<'a, K, V> { self.or_insert_with(|| v) }
    pub fn or_insert_with(self, f: impl FnOnce() -> V) -> RefMut<'a, K, V> {
        let Entry { map, key, idx, found } = self;
        let items = map.items_mut();
        let i = if found { drop(key); idx } else { items.push((key, f())); items.len() - 1 };
        map.writers.set(map.writers.get() + 1);
        let (k, v) = &mut items[i];
        RefMut { k, v, cnt: &map.writers }
    }
}

impl<K: Eq + Hash, V> DashMap<K, V, RandomState> {
    pub fn new() -> Self {
        DashMap { items: UnsafeCell::new(Vec::with_capacity(8)), readers: Cell::new(0), writers: Cell::new(0), _s: PhantomData }
    }
}
impl<K: Eq + Hash, V, S> DashMap<K, V, S> {
    fn items(&self) -> &Vec<(K, V)> { unsafe { &*self.items.get() } }
    #[allow(clippy::mut_from_ref)]
    fn items_mut(&self) -> &mut Vec<(K, V)> { unsafe { &mut *self.items.get() } }
    pub fn guards_live(&self) -> (usize, usize) { (self.readers.get(), self.writers.get()) }
    /// LOCK MONITOR. Real DashMap takes a shard write lock here: if this thread still holds ANY guard of the
    /// same map (Ref / RefMut / Iter) the call deadlocks whenever the two keys share a shard. Forbidding the
    /// nesting for all keys is the shard-independent statement of property C12.
    #[inline(always)]
    fn write_lock(&self) {
        assert!(self.readers.get() == 0 && self.writers.get() == 0, "c12.lock.write_while_guard_of_same_map_is_live");
    }
    /// Real DashMap takes a shard read lock here: a live RefMut of the same map on this thread deadlocks it
    /// (read-under-read is admitted by dashmap 6.1's RwLock and is not flagged).
    #[inline(always)]
    fn read_lock(&self) {
        assert!(self.writers.get() == 0, "c12.lock.read_while_write_guard_of_same_map_is_live");
    }

    pub fn len(&self) -> usize { self.items().len() }
    pub fn is_empty(&self) -> bool { self.items().is_empty() }
    pub fn clear(&self) { self.write_lock(); self.items_mut().clear(); }
    pub fn contains_key<Q: ?Sized + Eq + Hash>(&self, key: &Q) -> bool where K: Borrow<Q> {
        self.read_lock();
        self.items().iter().any(|(k, _)| k.borrow() == key)
    }
    pub fn get<Q: ?Sized + Eq + Hash>(&self, key: &Q) -> Option<Ref<'_, K, V>> where K: Borrow<Q> {
        self.read_lock();
        let it = self.items().iter().find(|(k, _)| k.borrow() == key)?;
        self.readers.set(self.readers.get() + 1);
        Some(Ref { k: &it.0, v: &it.1, cnt: &self.readers })
    }
    pub fn get_mut<Q: ?Sized + Eq + Hash>(&self, key: &Q) -> Option<RefMut<'_, K, V>> where K: Borrow<Q> {
        self.write_lock();
        let it = self.items_mut().iter_mut().find(|(k, _)| (*k).borrow() == key)?;
        self.writers.set(self.writers.get() + 1);
        Some(RefMut { k: &it.0, v: &mut it.1, cnt: &self.writers })
    }
    pub fn insert(&self, key: K, value: V) -> Option<V> {
        self.write_lock();
        let items = self.items_mut();
        match items.iter().position(|(k, _)| *k == key) {
            Some(i) => Some(std::mem::replace(&mut items[i].1, value)),
            None => { items.push((key, value)); None }
        }
    }
    pub fn remove<Q: ?Sized + Eq + Hash>(&self, key: &Q) -> Option<(K, V)> where K: Borrow<Q> {
        self.write_lock();
        let items = self.items_mut();
        let i = items.iter().position(|(k, _)| k.borrow() == key)?;
        Some(items.remove(i))
    }
    pub fn remove_if<Q: ?Sized + Eq + Hash>(&self, key: &Q, f: impl FnOnce(&K, &V) -> bool) -> Option<(K, V)> where K: Borrow<Q> {
        self.write_lock();
        let items = self.items_mut();
        let i = items.iter().position(|(k, _)| k.borrow() == key)?;
        if f(&items[i].0, &items[i].1) { Some(items.remove(i)) } else { None }
    }
    pub fn entry(&self, key: K) -> Entry<'_, K, V, S> {
        self.write_lock();
        match self.items().iter().position(|(k, _)| *k == key) {
            Some(idx) => Entry { map: self, key, idx, found: true },
            None => Entry { map: self, key, idx: 0, found: false },
        }
    }
    pub fn retain(&self, mut f: impl FnMut(&K, &mut V) -> bool) { self.write_lock(); self.items_mut().retain_mut(|(k, v)| f(k, v)); }
    pub fn iter(&self) -> Iter<'_, K, V> {
        self.read_lock();
        self.readers.set(self.readers.get() + 1);
        Iter { items: self.items().as_slice(), pos: 0, cnt: &self.readers }
    }
}
