//! Byte-wise stand-in for the one memchr API the repository uses (`memchr_iter` in build_line_index).
//! memchr 2.8 takes its SSE2 path even under cfg(miri); CBMC models every SIMD lane operation and the runtime
//! CPU-feature dispatch, which dominated the symbolic execution of every analyze_file. Same results, plain loop.
pub struct Memchr<'h> { needle: u8, hay: &'h [u8], pos: usize }
impl<'h> Iterator for Memchr<'h> {
    type Item = usize;
    fn next(&mut self) -> Option<usize> {
        while self.pos < self.hay.len() {
            let i = self.pos;
            self.pos += 1;
            if self.hay[i] == self.needle { return Some(i); }
        }
        None
    }
}
pub fn memchr_iter(needle: u8, haystack: &[u8]) -> Memchr<'_> { Memchr { needle, hay: haystack, pos: 0 } }
pub fn memchr(needle: u8, haystack: &[u8]) -> Option<usize> { memchr_iter(needle, haystack).next() }
