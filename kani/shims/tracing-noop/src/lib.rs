//! No-op stand-in for the `tracing` event macros (logging is not the subject of any property).
#[macro_export] macro_rules! trace { ($($t:tt)*) => {{}} }
#[macro_export] macro_rules! debug { ($($t:tt)*) => {{}} }
#[macro_export] macro_rules! info  { ($($t:tt)*) => {{}} }
#[macro_export] macro_rules! warn  { ($($t:tt)*) => {{}} }
#[macro_export] macro_rules! error { ($($t:tt)*) => {{}} }
