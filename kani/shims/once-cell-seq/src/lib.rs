pub mod sync { pub type Lazy<T> = std::sync::LazyLock<T>; }
