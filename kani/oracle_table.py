# Version table for the analyze_file-over-parser-oracle family (F4). name -> Python text.
# Text LENGTHS must be pairwise distinct (the oracle looks a text up by its length); tools/astgen.py checks.
TABLE = [
 # ---- conftest versions
 ("C_F",      "import pytest\n@pytest.fixture\ndef f(): return 1\n"),
 ("C_G",      "import pytest\n@pytest.fixture\ndef g():  return 1\n"),                      # f renamed to g
 ("C_F_MOVED", "import pytest\n\n\n@pytest.fixture\ndef f(g): return g\n@pytest.fixture\ndef g(): return 2\n"),  # f on another line, with a usage, plus g
 ("C_FF",     "import pytest\n@pytest.fixture\ndef f(): return 1\nclass T:\n    @pytest.fixture\n    def f(self): return 2\n"),  # same name twice in one file
 ("C_BAD",    "def ("),                                                                      # unparsable
 ("C_EMPTY",  ""),
 ("C_COMMENT", "# nothing here\n"),                                                          # parses, zero statements
 ("C_SCOPED", "import pytest\n@pytest.fixture(scope=\"session\")\ndef f(g): return g\n@pytest.fixture\ndef g(f): return f\n"),  # f<->g cycle, scopes
 # ---- test module versions
 ("U_T",      "def test_x(f): pass\n"),
 ("U_TG",     "\ndef test_x(f, g): pass\n"),
 ("U_BODY",   "def test_x():\n    f \n"),                                                     # undeclared use of f in the body
 ("U_BAD",    "def test_x(f:\n"),
 ("U_NONE",   "x = 1\n"),
]
