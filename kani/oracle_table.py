# Version table for the analyze_file-over-parser-oracle family (F4). name -> Python text.
# Text LENGTHS must be pairwise distinct (the oracle looks a text up by its length); tools/astgen.py checks.
TABLE = [
 # ---- conftest versions
 ("C_F",      "import pytest\n@pytest.fixture\ndef f(): return 1\n"),
 ("C_G",      "import pytest\n@pytest.fixture\ndef g():  return 1\n"),                      # f renamed to g
 ("C_F_MOVED", "import pytest\n\n\n@pytest.fixture\ndef f(g): return g\n@pytest.fixture\ndef g(): return 2\n"),  # f on another line, with a usage, plus g
 ("C_FF",     "import pytest\n@pytest.fixture\ndef f(): return 1\nclass T:\n    @pytest.fixture\n    def f(self): return 2\n"),  # same name twice in one file
 ("C_F_LINE", "import pytest\n\n\n\n@pytest.fixture\ndef f(): return 1\n"),                 # same name set as C_F, f on another line
 ("C_BAD",    "def ("),                                                                      # unparsable
 ("C_EMPTY",  ""),
 ("C_COMMENT", "# nothing here\n"),                                                          # parses, zero statements
 ("C_SCOPED", "import pytest\n@pytest.fixture(scope=\"session\")\ndef f(g): return g\n@pytest.fixture\ndef g(f): return f\n"),  # f<->g cycle, scopes
 # ---- test module versions
 ("U_T",      "def test_x(f): pass\n"),
 ("U_TG",     "\ndef test_x(f, g): pass\n"),
 ("U_BODY",   "def test_x():\n    f \n"),                                                     # undeclared use of f in the body
 ("U_BAD",    "def test_x(f:\n"),
 ("U_NONE",   "x = 1\n"),
]

# ---------------------------------------------------------------------------------------------------
# C03 / C15 / C17 documents (analysed once each; expectations are written by hand in h_records.rs from the
# documented pytest forms, NOT generated from the analyzer)
TABLE += [
 ("D_SPELLINGS", """import pytest, pytest_asyncio
from pytest import fixture
@pytest.fixture
def a(): return 1
@pytest.fixture()
def b(a): return a
@fixture
def c(): return 1
@fixture(scope="module", autouse=True)
def d(): return 1
@pytest_asyncio.fixture
async def e(d, c): return 1
@pytest.fixture(name="g")
def f_impl(request): return 1
"""),
 ("D_NOT_FIXTURES", """import pytest
def helper(a): return a
class Plain:
    def method(self, a): return a
def outer():
    @pytest.fixture
    def inner(): return 1
    return inner
X = "@pytest.fixture def s(): pass"
# @pytest.fixture
def test_t(a): pass
"""),
 ("D_CLASS", """import pytest
class TestK:
    @pytest.fixture
    def k(self): return 1
    def test_m(self, k): pass
@pytest.mark.usefixtures("k")
class TestL:
    def test_n(self): pass
"""),
 ("D_YIELD", """import pytest
@pytest.fixture
def y1():
    if True:
        yield 0
        return
    yield 1
@pytest.fixture
def y2() -> int:
    return 1
@pytest.fixture
def y3() -> Generator[int, None, None]:
    with open("x") as h:
        yield h
"""),
 ("D_DOC", '''import pytest
@pytest.fixture
def doc():
    """First line.

    Body line one.
  
    Body line two.
    """
    return 1
'''),
 ("D_ASSIGN", """import pytest
def _impl(): return 1
h = pytest.fixture()(_impl)
pytestmark = [pytest.mark.usefixtures("h"), pytest.mark.skip]
@pytest.mark.parametrize("h", [1], indirect=True)
def test_p(h): pass
"""),
 ("D_ANNOT", """import pytest
@pytest.fixture
def r1() -> dict[str, int]: return {}
@pytest.fixture
def r2() -> a.B | None: return None
@pytest.fixture
def r3(x: int = 3, *, y: str) -> "T": return 1
"""),
 ("D_ASYNC_GEN", """import pytest
@pytest.fixture
async def ag() -> AsyncIterator[int]:
    async with cm() as c:
        yield c
"""),
]

# ---- C17: undeclared-fixture scan. Conftest of /a defines fa, fb, fm, fl; the sibling conftest defines fs and fb.
TABLE += [
 ("D_U_CONF", """import pytest
@pytest.fixture
def fa(): return 1
@pytest.fixture
def fb(): return 1
@pytest.fixture
def fm(): return 1
@pytest.fixture
def fl(): return 1
"""),
 ("D_U_SIB", """import pytest
@pytest.fixture
def fs(): return 1
@pytest.fixture
def fb(): return 2
"""),
 ("D_U_TEST", """fm = 1
def test_u(fa):
    fa.x
    fb()
    g(fb)
    fb.attr
    y = fb + 1
    fb[0]
    [fb, 1]
    fs
    zz
    fm
    fl = 2
    fl
def test_v():
    global fm
    fm += 1
"""),
 # ---- C15: positions. Non-ASCII text before a token; string-literal forms in usefixtures.
 ("D_POS_UTF16", """import pytest
@pytest.mark.usefixtures("\u00e9", "fa")
def test_p(): pass
@pytest.mark.usefixtures("\U0001F600", "fb")
def test_q(): pass
"""),
 ("D_POS_LITERALS", """import pytest
@pytest.mark.usefixtures(r"fa", '''fb''', "fc")
def test_r(): pass
"""),
]

# ---- C18: completion context per cursor line
TABLE += [
 ("D_COMPLETION", """import pytest

@pytest.fixture(scope="module")
def fx(a,
       b):
    x = 1
    return x

def helper(q):
    pass

@pytest.mark.usefixtures("fx")
def test_x(fx):  # c
    y = 1
    for i in fx:
        pass
class TestK:
    def test_m(self, fx):
        pass
"""),
 # incomplete forms produced while typing a signature (unparsable -> text fallback)
 ("D_COMMENT_COLON", "def test_x(fx):  # c\n    for i in fx:\n        pass\n"),
 ("D_TYPING_OPEN", "import pytest\ndef test_x("),
 ("D_TYPING_COMMA", "import pytest\n@pytest.fixture\ndef fy(a,"),
 ("D_TYPING_USEFIX", "import pytest\n\n@pytest.mark.usefixtures("),
 ("D_TYPING_HELPER", "import pytest\ndef helper("),
]

# ---- conftest texts the F1 world generator produces for an importing conftest without own fixtures
# (file_text(world, C1/C0)); used by the harnesses that run the REAL import walk instead of the import oracle
TABLE += [
 ("W_C1_STAR",    "import pytest\nfrom .m import *\n"),
 ("W_C1_NAME",    "import pytest\nfrom .m import f\n"),
 ("W_C1_PLUGINS", "import pytest\npytest_plugins = [\"m\"]\n"),
 ("W_C0_STAR",    "import pytest\nfrom a.m import *\n"),
 ("W_C0_NAME",    "import pytest\nfrom a.m import f\n"),
 ("W_C0_PLUGINS", "import pytest\npytest_plugins = [\"a.m\"]\n"),
 ("W_NO_IMPORT",  "import pytest\n#\n"),
]

# ---- same-length edit of a long file (> 256 bytes, identical first and last 128 bytes): a space after a comma
# becomes a newline, so every later line number and column changes while length, head and tail stay the same
_HEAD = "# " + "h" * 130 + "\n"
_TAIL = "# " + "t" * 130 + "\n"
TABLE += [
 ("L_ONE_LINE",  _HEAD + "def test_long(aaaa, bbbb): pass\n" + _TAIL),
 ("L_TWO_LINES", _HEAD + "def test_long(aaaa,\nbbbb): pass\n" + _TAIL),
]
