//! Cross-checks between real code paths over F1 worlds: C05 (all features agree), C04 (references are the
//! inverse of go-to-definition), C20 (CLI unused/count agree with references), C08 (registration order).
use crate::fixtures::{FixtureDatabase, FixtureDefinition, FixtureScope};
use crate::kx::{any, assume};
use crate::spec;
use crate::world::*;
use crate::coll::HashSet;
use std::path::{Path, PathBuf};

fn any_line() -> usize { let l: usize = any(); assume(l >= 4 && l < 1000); l }
fn distinct(w: &World) {
    assume(w.layout_ok());
    for i in 0..w.defs.len() { for j in 0..i { assume(w.defs[i].line != w.defs[j].line); } }
}

/// solver-side stand-in for `get_imported_fixtures` (the import walk is C14; here it is the world's table)
pub fn stub_get_imported(_db: &FixtureDatabase, p: &Path, _visited: &mut HashSet<PathBuf>) -> HashSet<String> {
    let mut s = HashSet::new();
    if stub_is_imported(_db, "f", p) { s.insert("f".to_string()); }
    s
}

// ------------------------------------------------------------------------------------------------ C05
/// Every feature's pick for `f` requested from U is one and the same definition; the per-file view has
/// exactly one entry for `f` iff `f` is visible.
pub fn agree(order: &[u8], def_files: &[u8]) {
    let mut w = World::new(order);
    for &f in def_files { let l = any_line(); w.def(f, "f", l); }
    let m_has = def_files.contains(&M);
    let i1: bool = any(); let k1: u8 = any();
    assume(k1 < 3);
    w.imp_c1 = Imp { on: i1 && m_has && w.c1_present, kind: k1 };
    let vp: bool = any();
    w.v_is_plugin = vp && def_files.contains(&V);
    distinct(&w);
    note!("order={:?} defs={:?} imp_c1={}({}) v_is_plugin={}", order, w.defs.iter().map(|d| (d.file, d.line)).collect::<Vec<_>>(), w.imp_c1.on, k1, w.v_is_plugin);
    let db = build(&w, DEFS_ONLY);
    let up = Path::new(path(U));
    let nav = db.find_closest_definition(up, "f").map(|d| d.line);
    let out = db.resolve_fixture_for_file(up, "f").map(|d| d.line);
    let av = db.get_available_fixtures(up);
    let n_f = av.iter().filter(|d| d.name == "f").count();
    let av_f = av.iter().find(|d| d.name == "f").map(|d| d.line);
    note!("nav={:?} outgoing={:?} available={:?} (entries for f: {})", nav, out, av_f, n_f);
    let same_file_twice = def_files.iter().filter(|&&f| f == U).count() > 1;
    let via_import = spec::resolve(&w, U, "f", None).map_or(false, |i| w.defs[i].file == M);
    let invisible_only = spec::resolve(&w, U, "f", None).is_none();
    check!("c05.available.at_most_one_entry", n_f <= 1);
    if same_file_twice && crate::kf::C05_SAME_FILE_FIRST_VS_LAST {
        check!("KF:c05.same_file.available_is_nav", av_f == nav);
        check!("KF:c05.same_file.outgoing_is_nav", out == nav);
    } else if via_import && crate::kf::C05_OUTGOING_IGNORES_IMPORTS {
        check!("c05.import.available_is_nav", av_f == nav);
        check!("KF:c05.import.outgoing_is_nav", out == nav);
    } else if invisible_only && crate::kf::C05_OUTGOING_FALLBACK_FIRST {
        check!("c05.invisible.available_is_nav", av_f == nav);
        check!("KF:c05.invisible.outgoing_is_nav", out == nav);
    } else {
        check!("c05.available_is_nav", av_f == nav);
        check!("c05.outgoing_is_nav", out == nav);
    }
    reach!("c05.agree.end");
    std::mem::forget(av); std::mem::forget(db); std::mem::forget(w);
}
macro_rules! agree_arm {
    ($id:ident, $order:expr, $defs:expr) => {
        #[cfg_attr(kani, kani::proof)]
        #[cfg_attr(kani, kani::stub(std::path::Path::exists, crate::stubs::path_exists_false))]
        #[cfg_attr(kani, kani::stub(std::path::Path::canonicalize, crate::stubs::canonicalize_err))]
        #[cfg_attr(kani, kani::stub(std::hash::RandomState::new, crate::stubs::fixed_random_state))]
        #[cfg_attr(kani, kani::stub(crate::fixtures::FixtureDatabase::is_fixture_imported_in_file, crate::world::stub_is_imported))]
        #[cfg_attr(kani, kani::stub(crate::fixtures::FixtureDatabase::get_imported_fixtures, stub_get_imported))]
        pub fn $id() { agree(&$order, &$defs) }
    };
}
/// @harness id=c05_root_and_near props=C05,C18,C12 tier=quick unwind=17 mem=10 cap=1500 unwindset=find_inner:3
/// C0 and C1 define f (root registered first), requested from U.
agree_arm!(c05_root_and_near, [C0, C1, U], [C0, C1]);
/// @harness id=c05_same_file_twice props=C05 tier=thorough unwind=17 mem=10 cap=1500 unwindset=find_inner:3
/// U defines f twice.
agree_arm!(c05_same_file_twice, [U], [U, U]);
/// @harness id=c05_import_vs_sibling props=C05 tier=thorough unwind=17 mem=10 cap=1500 unwindset=find_inner:3
/// S and M define f, C1 (symbolically) imports M.
agree_arm!(c05_import_vs_sibling, [S, M, C1, U], [S, M]);
/// @harness id=c05_near_import_vs_root_def props=C05,C18 tier=thorough unwind=17 mem=10 cap=1500 unwindset=find_inner:3
/// M (registered first) and the root conftest C0 define f; the nearer conftest C1 (symbolically) imports M.
agree_arm!(c05_near_import_vs_root_def, [M, C0, C1, U], [M, C0]);
/// @harness id=c05_plugin_third props=C05,C18 tier=quick unwind=21 mem=10 cap=1500 unwindset=find_inner:3
/// V registered before P; V symbolically also an entry-point plugin.
agree_arm!(c05_plugin_third, [V, P, U], [V, P]);
/// @harness id=c05_sibling_only props=C05,C18 tier=quick unwind=17 mem=10 cap=1500 unwindset=find_inner:3
/// only the sibling conftest defines f: no feature may offer it.
agree_arm!(c05_sibling_only, [S, U], [S]);

/// Lean variant of `agree` (the four-resolver cross-check of the import arms exceeds 10 GB): ONE call of the real
/// `get_available_fixtures(U)` on a fully concrete world, compared with the reference lookup: the view has an entry for
/// `f` iff pytest finds one from U, and it is that definition; never two entries.
pub fn available_lean(w: World) {
    assume(w.layout_ok());
    note!("order={:?} defs={:?} imp_c1={}", w.order, w.defs.iter().map(|d| (d.file, d.line)).collect::<Vec<_>>(), w.imp_c1.on);
    let db = build(&w, DEFS_ONLY);
    let av = db.get_available_fixtures(Path::new(path(U)));
    let n_f = av.iter().filter(|d| d.name == "f").count();
    let got = av.iter().find(|d| d.name == "f").map(|d| (file_of(&d.file_path), d.line));
    let want = spec::resolve(&w, U, "f", None).map(|i| (w.defs[i].file, w.defs[i].line));
    note!("available f = {:?} (entries {}), reference lookup = {:?}", got, n_f, want);
    check!("c05.lean.available_is_model", got == want);
    check!("c05.lean.at_most_one_entry", n_f <= 1);
    reach!("c05.lean.end");
    std::mem::forget(av); std::mem::forget(db); std::mem::forget(w);
}
macro_rules! lean_arm {
    ($id:ident, $body:expr) => {
        #[cfg_attr(kani, kani::proof)]
        #[cfg_attr(kani, kani::stub(std::path::Path::exists, crate::stubs::path_exists_false))]
        #[cfg_attr(kani, kani::stub(std::path::Path::canonicalize, crate::stubs::canonicalize_err))]
        #[cfg_attr(kani, kani::stub(std::hash::RandomState::new, crate::stubs::fixed_random_state))]
        #[cfg_attr(kani, kani::stub(crate::fixtures::FixtureDatabase::is_fixture_imported_in_file, crate::world::stub_is_imported))]
        #[cfg_attr(kani, kani::stub(crate::fixtures::FixtureDatabase::get_imported_fixtures, stub_get_imported))]
        pub fn $id() { $body }
    };
}
/// an alias spelling of U's path (`<root>/ln/t_u.py`, `ln` being a symlink to `a`); it canonicalises to `path(U)`.
/// (A spelling with `..` was tried first: the ParentDir components made the formula exceed 10 GB.)
pub const U_ALIAS: &str = concat!(env!("PLSV_ROOT"), "/ln/t_u.py");
/// @harness id=c12_available_alias props=C12 tier=quick unwind=24 mem=6 cap=600
/// The per-file view of U (a world WITHOUT definitions, so the view is empty and cloning it is free) is requested under
/// its canonical path (the cache is filled) and then under an ALIAS spelling that canonicalises to the same file
/// (`ln/t_u.py` through a symlinked directory, known to the canonical-path cache): the second request is a cache hit
/// through a different spelling. Lock discipline (the monitored map asserts that no guard of `available_fixtures_cache`
/// is alive when it is written) and: both requests return the same (empty) view. (With one definition in the world
/// the formula exceeded 20 GB.)
lean_arm!(c12_available_alias, {
    let w = World::new(&[U]);
    let db = build(&w, DEFS_ONLY);
    db.canonical_path_cache.insert(std::path::PathBuf::from(U_ALIAS), std::path::PathBuf::from(path(U)));
    let a1 = db.get_available_fixtures(Path::new(path(U)));
    let a2 = db.get_available_fixtures(Path::new(U_ALIAS));
    note!("view of U: {} entries, view under the alias spelling: {} entries, cached views: {}", a1.len(), a2.len(), db.available_fixtures_cache.len());
    check!("c12.alias.same_view", a1.len() == 0 && a2.len() == 0);
    reach!("c12_available_alias.end");
    std::mem::forget(a1); std::mem::forget(a2); std::mem::forget(db); std::mem::forget(w);
});
/// @harness id=c05_lean_near_import_vs_root_def props=C05,C18 tier=quick unwind=17 mem=10 cap=1500
/// M (registered first) and the root conftest C0 define f; the nearer conftest C1 star-imports M: the per-file view of
/// U must offer M's f (the import at the nearer level shadows the root's own definition).
lean_arm!(c05_lean_near_import_vs_root_def, {
    let mut w = World::new(&[M, C0, C1, U]);
    w.def(M, "f", 4); w.def(C0, "f", 6);
    w.imp_c1 = Imp { on: true, kind: 0 };
    available_lean(w)
});
/// @harness id=c05_lean_root_def_no_import props=C05,C18 tier=thorough unwind=17 mem=10 cap=1500
/// the same files without the import: the root's f.
lean_arm!(c05_lean_root_def_no_import, {
    let mut w = World::new(&[M, C0, C1, U]);
    w.def(M, "f", 4); w.def(C0, "f", 6);
    available_lean(w)
});

/// @harness id=c05_lean_plugin_over_third_party props=C05,C18 tier=quick unwind=21 mem=10 cap=1500
/// the site-packages module V (registered first, and itself an entry-point plugin file) and the workspace plugin P both
/// define f; no conftest does: the per-file view of U must offer P's f (workspace plugin before third-party).
lean_arm!(c05_lean_plugin_over_third_party, {
    let mut w = World::new(&[V, P, U]);
    w.def(V, "f", 4); w.def(P, "f", 6);
    w.v_is_plugin = true;
    available_lean(w)
});
/// @harness id=c05_lean_plugin_over_plain_third_party props=C05,C18 tier=thorough unwind=21 mem=10 cap=1500
/// the same with V a plain site-packages module (not an entry point).
lean_arm!(c05_lean_plugin_over_plain_third_party, {
    let mut w = World::new(&[V, P, U]);
    w.def(V, "f", 4); w.def(P, "f", 6);
    available_lean(w)
});

// ------------------------------------------------------------------------------------------------ C04
/// references(D) contains usage u  <=>  go-to-definition on u lands on D; an unresolved usage is in no set;
/// no usage twice. Go-to-definition on a recorded usage = the call sequence `find_fixture_definition` performs once
/// it has located the usage (position lookup itself is C01(b)/C02): the definition on the usage's line, if it has
/// the same name, is excluded. Definition / test lines are the world's concrete ones.
pub fn inverse(w: World) {
    assume(w.layout_ok());
    let db = build(&w, WITH_USAGES);
    let mut uses: Vec<(u8, usize, usize, Option<usize>)> = Vec::with_capacity(8);
    for &f in &w.order {
        for u in usages_of_file(&w, f) {
            let p = Path::new(path(f));
            let here = db.get_definition_at_line(p, u.line, &u.name);
            let g = match &here {
                Some(cur) => db.find_closest_definition_excluding(p, &u.name, Some(cur)),
                None => db.find_closest_definition(p, &u.name),
            }.map(|d| d.line);
            uses.push((f, u.line, u.start_char, g));
            std::mem::forget(here);
        }
    }
    note!("uses (file,line,col,goto-line) = {:?}", uses);
    for k in 0..w.defs.len() {
        let d = mk_def(&w.defs[k]);
        let refs = db.find_references_for_definition(&d);
        note!("refs({}:{}) = {:?}", path(w.defs[k].file), w.defs[k].line, refs.iter().map(|r| (file_of(&r.file_path), r.line, r.start_char)).collect::<Vec<_>>());
        for u in uses.iter() {
            let listed = refs.iter().filter(|r| r.line == u.1 && r.start_char == u.2 && file_of(&r.file_path) == u.0).count();
            let lands = u.3 == Some(w.defs[k].line);
            check!("c04.inverse.listed_iff_goto_lands", (listed >= 1) == lands);
            check!("c04.inverse.no_duplicate", listed <= 1);
        }
        check!("c04.inverse.only_recorded_usages", refs.len() <= uses.len());
        std::mem::forget(refs); std::mem::forget(d);
    }
    reach!("c04.inverse.end");
    std::mem::forget(db); std::mem::forget(w);
}
macro_rules! pos_arm {
    ($id:ident, $body:expr) => {
        #[cfg_attr(kani, kani::proof)]
        #[cfg_attr(kani, kani::stub(std::path::Path::exists, crate::stubs::path_exists_false))]
        #[cfg_attr(kani, kani::stub(crate::fixtures::FixtureDatabase::is_fixture_imported_in_file, crate::world::stub_is_imported))]
        #[cfg_attr(kani, kani::stub(core::unicode::unicode_data::alphabetic::lookup, crate::stubs::uni_alphabetic))]
        #[cfg_attr(kani, kani::stub(core::unicode::unicode_data::n::lookup, crate::stubs::uni_numeric))]
        #[cfg_attr(kani, kani::stub(core::slice::memchr::memchr, crate::stubs::memchr_bytewise))]
        pub fn $id() { $body }
    };
}
/// @harness id=c04_inv_shadowed props=C04 tier=thorough unwind=24 mem=10 cap=1500 gates=worlds
/// f in the sibling S (registered first) and in the root C0; tests in U (binds C0) and T2 (binds S); a test
/// parameter `z` that is no fixture.
pos_arm!(c04_inv_shadowed, {
    let mut w = World::new(&[S, C0, U, T2]);
    w.def(S, "f", 4); w.def(C0, "f", 6);
    w.test(U, 8, &["f", "z"]); w.test(T2, 10, &["f"]);
    inverse(w)
});
/// @harness id=c04_inv_override props=C04 tier=thorough unwind=24 mem=12 cap=1800 gates=worlds
/// override C1 `f(f)` over C0 `f()`, a test in U; the override's parameter belongs to the parent.
pos_arm!(c04_inv_override, {
    let mut w = World::new(&[C0, C1, U]);
    w.def(C0, "f", 4); let i = w.def(C1, "f", 6); w.defs[i].deps = vec!["f"];
    w.test(U, 8, &["f"]);
    inverse(w)
});

/// @harness id=c04_inv_sibling_first props=C04,C08 tier=quick unwind=24 mem=12 cap=1800 gates=worlds
/// C1 defines f; the sibling module M (same directory) uses the inherited f and is registered BEFORE U, which
/// overrides f locally and uses its own.
pos_arm!(c04_inv_sibling_first, {
    let mut w = World::new(&[C1, M, U]);
    w.def(C1, "f", 4); w.def(U, "f", 6);
    w.test(M, 8, &["f"]); w.test(U, 10, &["f"]);
    inverse(w)
});
/// @harness id=c04_inv_usage_above_override props=C04,C02 tier=thorough unwind=24 mem=12 cap=1800 gates=worlds
/// U: a test using f sits ABOVE the override `def f(f)`; parent f in C0. The override's own parameter belongs to
/// the parent, the test's parameter to the override.
pos_arm!(c04_inv_usage_above_override, {
    let mut w = World::new(&[C0, U]);
    w.def(C0, "f", 4); let i = w.def(U, "f", 6); w.defs[i].deps = vec!["f"];
    w.test(U, 3, &["f"]); w.tests[0].before_defs = true;
    inverse(w)
});

/// Lean variant of `inverse` (the full cross-check of every usage against every definition exceeds 12 GB): ONE call of
/// the real `find_references_for_definition(D_k)` compared with the reference model — usage u is listed iff
/// `spec::resolve` (pytest's lookup; the definition on u's own line excluded when it carries u's name) lands on D_k.
pub fn refs_of(w: World, k: usize) {
    assume(w.layout_ok());
    let db = build(&w, WITH_USAGES);
    let d = mk_def(&w.defs[k]);
    let refs = db.find_references_for_definition(&d);
    note!("refs({}:{}) = {:?}", path(w.defs[k].file), w.defs[k].line, refs.iter().map(|r| (file_of(&r.file_path), r.line, r.start_char)).collect::<Vec<_>>());
    let mut n_want = 0usize;
    for &f in &w.order {
        for u in usages_of_file(&w, f) {
            let excl = (0..w.defs.len()).find(|&i| w.defs[i].file == f && w.defs[i].line == u.line && w.defs[i].name == u.name.as_str());
            let want = crate::spec::resolve(&w, f, u.name.as_str(), excl) == Some(k);
            let listed = refs.iter().filter(|r| r.line == u.line && r.start_char == u.start_char && file_of(&r.file_path) == f).count();
            note!("usage {}:{}:{} expected_listed={} listed={}", path(f), u.line, u.start_char, want, listed);
            check!("c04.refs.listed_iff_model", (listed >= 1) == want);
            check!("c04.refs.no_duplicate", listed <= 1);
            if want { n_want += 1; }
        }
    }
    check!("c04.refs.nothing_else", refs.len() == n_want);
    reach!("c04.refs.end");
    std::mem::forget(refs); std::mem::forget(d); std::mem::forget(db); std::mem::forget(w);
}
/// @harness id=c04_refs_parent_usage_above_override props=C04,C02 tier=thorough unwind=24 mem=10 cap=1500 gates=worlds
/// U: a test using f sits ABOVE the override `def f(f)`; parent f in C0. References of the PARENT: exactly the
/// override's own parameter (the test's parameter belongs to the override).
pos_arm!(c04_refs_parent_usage_above_override, {
    let mut w = World::new(&[C0, U]);
    w.def(C0, "f", 4); let i = w.def(U, "f", 6); w.defs[i].deps = vec!["f"];
    w.test(U, 3, &["f"]); w.tests[0].before_defs = true;
    refs_of(w, 0)
});
/// @harness id=c04_refs_override_usage_above props=C04,C02 tier=thorough unwind=24 mem=10 cap=1500 gates=worlds
/// the same world, references of the OVERRIDE: exactly the test's parameter above it.
pos_arm!(c04_refs_override_usage_above, {
    let mut w = World::new(&[C0, U]);
    w.def(C0, "f", 4); let i = w.def(U, "f", 6); w.defs[i].deps = vec!["f"];
    w.test(U, 3, &["f"]); w.tests[0].before_defs = true;
    refs_of(w, 1)
});
/// @harness id=c04_refs_conftest_sibling_first props=C04,C08 tier=quick unwind=24 mem=10 cap=1500 gates=worlds
/// C1 defines f; the sibling module M (same directory) uses the inherited f and is registered BEFORE U, which
/// overrides f locally and uses its own. References of C1's f: exactly M's usage.
pos_arm!(c04_refs_conftest_sibling_first, {
    let mut w = World::new(&[C1, M, U]);
    w.def(C1, "f", 4); w.def(U, "f", 6);
    w.test(M, 8, &["f"]); w.test(U, 10, &["f"]);
    refs_of(w, 0)
});
/// @harness id=c04_refs_local_sibling_first props=C04,C08 tier=thorough unwind=24 mem=10 cap=1500 gates=worlds
/// the same world, references of U's local f: exactly U's own usage.
pos_arm!(c04_refs_local_sibling_first, {
    let mut w = World::new(&[C1, M, U]);
    w.def(C1, "f", 4); w.def(U, "f", 6);
    w.test(M, 8, &["f"]); w.test(U, 10, &["f"]);
    refs_of(w, 1)
});

/// @harness id=c04_refs_chain_middle props=C04,C02 tier=thorough unwind=24 mem=10 cap=1500 gates=worlds
/// three-link override chain C0 f() <- C1 f(f) <- U f(f), a test in U below its definition: references of the MIDDLE
/// link are exactly U's own parameter (the test's parameter belongs to U's f, C1's parameter to C0's f).
pos_arm!(c04_refs_chain_middle, {
    let mut w = World::new(&[C0, C1, U]);
    w.def(C0, "f", 4); let i = w.def(C1, "f", 6); w.defs[i].deps = vec!["f"];
    let j = w.def(U, "f", 8); w.defs[j].deps = vec!["f"];
    w.test(U, 12, &["f"]);
    refs_of(w, 1)
});
/// @harness id=c04_refs_chain_outermost props=C04,C02 tier=thorough unwind=24 mem=10 cap=1500 gates=worlds
/// the same chain, references of the OUTERMOST definition: exactly C1's parameter.
pos_arm!(c04_refs_chain_outermost, {
    let mut w = World::new(&[C0, C1, U]);
    w.def(C0, "f", 4); let i = w.def(C1, "f", 6); w.defs[i].deps = vec!["f"];
    let j = w.def(U, "f", 8); w.defs[j].deps = vec!["f"];
    w.test(U, 12, &["f"]);
    refs_of(w, 0)
});

// ------------------------------------------------------------------------------------------------ C20
/// `get_unused_fixtures` lists D  <=>  D is not third-party, not autouse, and no usage resolves to it
/// (find_references_for_definition(D) is empty); the list is sorted.
pub fn unused(w: World) {
    assume(w.layout_ok());
    note!("defs={:?} tests={:?}", w.defs.iter().map(|d| (d.file, d.name, d.line, d.autouse)).collect::<Vec<_>>(), w.tests.iter().map(|t| (t.file, t.params.clone())).collect::<Vec<_>>());
    let db = build(&w, WITH_USAGES);
    let un = db.get_unused_fixtures();
    note!("unused={:?}", un);
    for k in 0..w.defs.len() {
        let d = mk_def(&w.defs[k]);
        let refs = db.find_references_for_definition(&d);
        let listed = un.iter().filter(|(p, n)| file_of(p) == w.defs[k].file && n.as_str() == w.defs[k].name).count();
        let want = !d.is_third_party && !d.autouse && refs.is_empty();
        // per-definition statement; two definitions of one name in one file share a (file, name) key in the CLI
        let shared_key = (0..w.defs.len()).any(|j| j != k && w.defs[j].file == w.defs[k].file && w.defs[j].name == w.defs[k].name);
        if shared_key && crate::kf::C20_COUNTS_KEYED_BY_FILE_AND_NAME {
            check!("KF:c20.unused.iff_no_reference", (listed >= 1) == want);
        } else {
            check!("c20.unused.iff_no_reference", (listed >= 1) == want);
            check!("c20.unused.listed_once", listed <= 1);
        }
        std::mem::forget(refs); std::mem::forget(d);
    }
    for i in 1..un.len() {
        check!("c20.unused.sorted", (&un[i - 1].0, &un[i - 1].1) <= (&un[i].0, &un[i].1));
    }
    reach!("c20.unused.end");
    std::mem::forget(un); std::mem::forget(db); std::mem::forget(w);
}
macro_rules! cli_arm {
    ($id:ident, $body:expr) => {
        #[cfg_attr(kani, kani::proof)]
        #[cfg_attr(kani, kani::stub(std::path::Path::exists, crate::stubs::path_exists_false))]
        #[cfg_attr(kani, kani::stub(std::hash::RandomState::new, crate::stubs::fixed_random_state))]
        #[cfg_attr(kani, kani::stub(crate::fixtures::FixtureDatabase::is_fixture_imported_in_file, crate::world::stub_is_imported))]
        pub fn $id() { $body }
    };
}
/// Lean variant of `unused` (one call of the real `get_unused_fixtures`, expectation from the reference lookup):
/// D is listed iff it is not third-party, not autouse and no usage resolves to it. Worlds without two definitions of one
/// name in one file (that is the recorded finding C20_COUNTS_KEYED_BY_FILE_AND_NAME, probed by `unused`).
pub fn unused_lean(w: World) {
    assume(w.layout_ok());
    let db = build(&w, WITH_USAGES);
    let un = db.get_unused_fixtures();
    note!("defs={:?} unused={:?}", w.defs.iter().map(|d| (d.file, d.name, d.line)).collect::<Vec<_>>(), un);
    let mut n_want = 0usize;
    for k in 0..w.defs.len() {
        let mut used = false;
        for &f in &w.order {
            for u in usages_of_file(&w, f) {
                let excl = (0..w.defs.len()).find(|&i| w.defs[i].file == f && w.defs[i].line == u.line && w.defs[i].name == u.name.as_str());
                if crate::spec::resolve(&w, f, u.name.as_str(), excl) == Some(k) { used = true; }
            }
        }
        let want = w.defs[k].file != V && !w.defs[k].autouse && !used;
        let listed = un.iter().filter(|(p, n)| file_of(p) == w.defs[k].file && n.as_str() == w.defs[k].name).count();
        check!("c20.lean.listed_iff_model", (listed >= 1) == want);
        check!("c20.lean.listed_once", listed <= 1);
        if want { n_want += 1; }
    }
    check!("c20.lean.nothing_else", un.len() == n_want);
    reach!("c20.lean.end");
    std::mem::forget(un); std::mem::forget(db); std::mem::forget(w);
}
/// @harness id=c20_lean_usage_above_override props=C20,C04 tier=thorough unwind=17 mem=10 cap=1500
/// U: test(f) above the override `def f(f)`; parent f in C0: both are used exactly once, none is unused.
cli_arm!(c20_lean_usage_above_override, {
    let mut w = World::new(&[C0, U]);
    w.def(C0, "f", 4); let i = w.def(U, "f", 6); w.defs[i].deps = vec!["f"];
    w.test(U, 3, &["f"]); w.tests[0].before_defs = true;
    unused_lean(w)
});
/// @harness id=c20_lean_usage_below_override props=C20,C04 tier=thorough unwind=17 mem=10 cap=1500
/// U: the override `def f(f)` and BELOW it a test(f); parent f in C0: the override's own parameter uses the parent, the
/// test uses the override — both are used exactly once, none is unused (the override's parameter is met first).
cli_arm!(c20_lean_usage_below_override, {
    let mut w = World::new(&[C0, U]);
    w.def(C0, "f", 4); let i = w.def(U, "f", 4); w.defs[i].deps = vec!["f"];
    w.test(U, 9, &["f"]);
    unused_lean(w)
});
/// @harness id=c20_lean_shadowed_parent_unused props=C20,C04 tier=quick unwind=17 mem=10 cap=1500
/// U overrides f WITHOUT requesting the parent and uses its own f: the parent in C0 is unused, the override is not.
cli_arm!(c20_lean_shadowed_parent_unused, {
    let mut w = World::new(&[C0, U]);
    w.def(C0, "f", 4); w.def(U, "f", 6);
    w.test(U, 9, &["f"]);
    unused_lean(w)
});
/// @harness id=c20_lean_autouse_and_third_party props=C20 tier=quick unwind=17 mem=10 cap=1500
/// nothing is requested anywhere: the autouse fixture f in C0 and the site-packages fixture g in V are NOT reported, the
/// plain project fixture h in C0 is — once.
cli_arm!(c20_lean_autouse_and_third_party, {
    let mut w = World::new(&[C0, V, U]);
    let i = w.def(C0, "f", 4); w.defs[i].autouse = true;
    w.def(C0, "h", 6);
    w.def(V, "g", 8);
    unused_lean(w)
});
/// @harness id=c20_unused_basic props=C20,C04 tier=thorough unwind=17 mem=14 cap=2400 unwindset=find_inner:3
/// C0: f (autouse symbolic), g (autouse symbolic); U: test(f). f used, g unused unless autouse.
cli_arm!(c20_unused_basic, {
    let mut w = World::new(&[C0, U]);
    let a: bool = any(); let b: bool = any();
    let i = w.def(C0, "f", 4); w.defs[i].autouse = a;
    let j = w.def(C0, "g", 6); w.defs[j].autouse = b;
    w.test(U, 8, &["f"]);
    unused(w)
});
/// @harness id=c20_unused_shadowed props=C20,C04 tier=quick unwind=17 mem=14 cap=2400 unwindset=find_inner:3
/// f in C1 and C0, a test in U: C1's is used, C0's is unused (shadowed), whatever the registration order.
cli_arm!(c20_unused_shadowed, {
    let mut w = World::new(&[C0, C1, U]);
    w.def(C0, "f", 4); w.def(C1, "f", 6);
    w.test(U, 8, &["f"]);
    unused(w)
});
/// @harness id=c20_unused_same_file_twice props=C20,C04 tier=quick unwind=17 mem=14 cap=2400 unwindset=find_inner:3
/// U defines f twice and uses it once: the first definition is unused, the second used.
cli_arm!(c20_unused_same_file_twice, {
    let mut w = World::new(&[U]);
    w.def(U, "f", 4); w.def(U, "f", 6);
    w.test(U, 8, &["f"]);
    unused(w)
});
/// @harness id=c20_unused_usage_above_override props=C20,C04 tier=thorough unwind=17 mem=14 cap=2400 unwindset=find_inner:3
/// U: test(f) above the override `def f(f)`; parent f in C0: both are used exactly once, none unused.
cli_arm!(c20_unused_usage_above_override, {
    let mut w = World::new(&[C0, U]);
    w.def(C0, "f", 4); let i = w.def(U, "f", 6); w.defs[i].deps = vec!["f"];
    w.test(U, 3, &["f"]); w.tests[0].before_defs = true;
    unused(w)
});
/// @harness id=c20_unused_same_name_two_files props=C20 tier=quick unwind=17 mem=14 cap=2400 unwindset=find_inner:3
/// the same name g unused in two different conftests (C1 and S), f used: both g entries must be listed.
cli_arm!(c20_unused_same_name_two_files, {
    let mut w = World::new(&[C1, S, U]);
    w.def(C1, "f", 4); w.def(C1, "g", 6); w.def(S, "g", 8);
    w.test(U, 10, &["f"]);
    unused(w)
});
/// @harness id=c20_unused_third_party props=C20 tier=quick unwind=21 mem=14 cap=2400 unwindset=find_inner:3
/// V: f (third-party, never listed), C0: g unused.
cli_arm!(c20_unused_third_party, {
    let mut w = World::new(&[V, C0, U]);
    w.def(V, "f", 4); w.def(C0, "g", 6);
    w.test(U, 8, &["f"]);
    unused(w)
});

// ------------------------------------------------------------------------------------------------ C08
/// The same content registered in two different orders gives the same resolution from U.
pub fn order_pair(order_a: &[u8], order_b: &[u8], def_files: &[u8]) {
    let mut lines: Vec<usize> = Vec::with_capacity(4);
    for _ in def_files { lines.push(any_line()); }
    let i1: bool = any(); let k1: u8 = any();
    assume(k1 < 3);
    let mk = |order: &[u8]| {
        let mut w = World::new(order);
        for (n, &f) in def_files.iter().enumerate() { w.def(f, "f", lines[n]); }
        w.imp_c1 = Imp { on: i1 && def_files.contains(&M) && w.c1_present, kind: k1 };
        w
    };
    let wa = mk(order_a); let wb = mk(order_b);
    distinct(&wa);
    note!("defs={:?} imp_c1={} order_a={:?} order_b={:?}", wa.defs.iter().map(|d| (d.file, d.line)).collect::<Vec<_>>(), wa.imp_c1.on, order_a, order_b);
    let up = Path::new(path(U));
    let dba = build(&wa, DEFS_ONLY);
    let ra = dba.find_closest_definition(up, "f").map(|d| d.line);
    std::mem::forget(dba);
    let dbb = build(&wb, DEFS_ONLY);
    let rb = dbb.find_closest_definition(up, "f").map(|d| d.line);
    std::mem::forget(dbb);
    note!("a -> {:?}   b -> {:?}", ra, rb);
    let via_import = spec::resolve(&wa, U, "f", None).map_or(false, |i| wa.defs[i].file == M);
    if via_import && crate::kf::C01_IMPORTED_FIRST_REGISTERED {
        check!("KF:c08.order.imported", ra == rb);
    } else {
        check!("c08.order.same_resolution", ra == rb);
    }
    reach!("c08.order.end");
    std::mem::forget(wa); std::mem::forget(wb);
}
macro_rules! order_arm {
    ($id:ident, $a:expr, $b:expr, $defs:expr) => {
        #[cfg_attr(kani, kani::proof)]
        #[cfg_attr(kani, kani::stub(std::path::Path::exists, crate::stubs::path_exists_false))]
        #[cfg_attr(kani, kani::stub(crate::fixtures::FixtureDatabase::is_fixture_imported_in_file, crate::world::stub_is_imported))]
        pub fn $id() { order_pair(&$a, &$b, &$defs) }
    };
}
/// @harness id=c08_ord_levels props=C08 tier=quick unwind=17 mem=8 cap=1200
/// f in C0, C1, S: registration C0,C1,S vs S,C1,C0.
order_arm!(c08_ord_levels, [C0, C1, S, U], [S, C1, C0, U], [C0, C1, S]);
/// @harness id=c08_ord_import props=C08 tier=thorough unwind=17 mem=8 cap=1200
/// f in S and M, C1 (symbolically) importing M: registration S,M vs M,S.
order_arm!(c08_ord_import, [S, M, C1, U], [M, S, C1, U], [S, M]);
/// @harness id=c08_ord_global props=C08 tier=quick unwind=21 mem=8 cap=1200
/// f in P and V: registration P,V vs V,P.
order_arm!(c08_ord_global, [P, V, U], [V, P, U], [P, V]);
