//! F3/F4 — "what the index records is what the file says" (C03), recorded positions (C15) and undeclared-fixture
//! findings (C17): the real `analyze_file` over the parser oracle on the D_* documents of the version table.
//! The expectations below are written BY HAND from pytest's documented forms (they are the reference
//! extraction), not generated from the analyzer.
use crate::fixtures::{FixtureDatabase, FixtureDefinition, FixtureScope, FixtureUsage, UndeclaredFixture};
use crate::kx::{any, assume};
use crate::oracle::*;
use std::path::{Path, PathBuf};

pub const PU: &str = concat!(env!("PLSV_ROOT"), "/a/t_u.py");
pub const PC: &str = concat!(env!("PLSV_ROOT"), "/a/conftest.py");
pub const PS: &str = concat!(env!("PLSV_ROOT"), "/bb/conftest.py");

/// expected definition: name, def line, scope, autouse, dependencies, yield line, return type, docstring
pub struct ED {
    pub name: &'static str, pub line: usize, pub scope: FixtureScope, pub autouse: bool, pub deps: &'static [&'static str],
    pub yield_line: Option<usize>, pub ret: Option<&'static str>, pub doc: Option<&'static str>,
}
pub const fn ed(name: &'static str, line: usize) -> ED {
    ED { name, line, scope: FixtureScope::Function, autouse: false, deps: &[], yield_line: None, ret: None, doc: None }
}
/// expected usage / finding: name, line, start column, end column
pub struct EU(pub &'static str, pub usize, pub usize, pub usize);

fn defs_of(db: &FixtureDatabase, p: &str) -> Vec<FixtureDefinition> {
    let mut v = Vec::with_capacity(8);
    for e in db.definitions.iter() { for d in e.value().iter() { if d.file_path.as_os_str().len() == p.len() { v.push(d.clone()); } } }
    v
}
fn def_ok(d: &FixtureDefinition, w: &ED) -> bool {
    d.name == w.name && d.line == w.line && d.scope == w.scope && d.autouse == w.autouse
        && d.dependencies.len() == w.deps.len() && d.dependencies.iter().zip(w.deps.iter()).all(|(a, b)| a == b)
        && d.yield_line == w.yield_line && d.return_type.as_deref() == w.ret && d.docstring.as_deref() == w.doc
}
/// the definitions recorded for `p` are exactly `want` (every expected one once, nothing else)
pub fn defs_are(db: &FixtureDatabase, p: &str, want: &[ED]) -> bool {
    let got = defs_of(db, p);
    note!("definitions recorded: {:?}", got.iter().map(|d| (d.name.clone(), d.line, d.scope, d.autouse, d.dependencies.clone(), d.yield_line, d.return_type.clone(), d.docstring.clone())).collect::<Vec<_>>());
    let mut ok = got.len() == want.len();
    for w in want { if got.iter().filter(|d| def_ok(d, w)).count() != 1 { note!("expected definition {} @{} not recorded exactly", w.name, w.line); ok = false; } }
    std::mem::forget(got);
    ok
}
pub fn usages_are(db: &FixtureDatabase, p: &str, want: &[EU]) -> bool {
    let got: Vec<FixtureUsage> = db.usages.get(&PathBuf::from(p)).map(|u| u.value().clone()).unwrap_or_default();
    note!("usages recorded: {:?}", got.iter().map(|u| (u.name.clone(), u.line, u.start_char, u.end_char)).collect::<Vec<_>>());
    let mut ok = got.len() == want.len();
    for w in want { if got.iter().filter(|u| u.name == w.0 && u.line == w.1 && u.start_char == w.2 && u.end_char == w.3).count() != 1 { note!("expected usage {} @{}:{}..{} not recorded exactly once", w.0, w.1, w.2, w.3); ok = false; } }
    std::mem::forget(got);
    ok
}
pub fn undeclared_are(db: &FixtureDatabase, p: &str, want: &[EU]) -> bool {
    let got: Vec<UndeclaredFixture> = db.get_undeclared_fixtures(Path::new(p));
    note!("undeclared recorded: {:?}", got.iter().map(|u| (u.name.clone(), u.line, u.start_char, u.end_char)).collect::<Vec<_>>());
    let mut ok = got.len() == want.len();
    for w in want { if got.iter().filter(|u| u.name == w.0 && u.line == w.1 && u.start_char == w.2 && u.end_char == w.3).count() != 1 { note!("expected finding {} @{}:{}..{} missing", w.0, w.1, w.2, w.3); ok = false; } }
    std::mem::forget(got);
    ok
}

macro_rules! rec_arm {
    ($id:ident, $oracle:ident, $body:expr) => {
        #[cfg_attr(kani, kani::proof)]
        #[cfg_attr(kani, kani::stub(rustpython_parser::parse, crate::oracle::$oracle))]
        #[cfg_attr(kani, kani::stub(std::path::Path::canonicalize, crate::stubs::canonicalize_err))]
        #[cfg_attr(kani, kani::stub(std::path::Path::exists, crate::stubs::path_exists_false))]
        #[cfg_attr(kani, kani::stub(std::hash::RandomState::new, crate::stubs::fixed_random_state))]
        #[cfg_attr(kani, kani::stub(std::arch::x86_64::__cpuid_count, crate::stubs::cpuid_none))]
        #[cfg_attr(kani, kani::stub(core::unicode::unicode_data::white_space::lookup, crate::stubs::uni_white_space))]
        #[cfg_attr(kani, kani::stub(core::slice::memchr::memchr, crate::stubs::memchr_bytewise))]
        pub fn $id() { $body }
    };
}
const M: FixtureScope = FixtureScope::Module;

/// @harness id=c03_spellings props=ATTEMPT tier=thorough unwind=18 mem=14 cap=2400 unwindset=find_inner:3;memchr_seq:400;rec~ParseErrorType:3;rec~LexicalErrorType:3;rec~FStringErrorType:3;rec~drop_glue::<std::io::Error:3;memchr_bytewise:64;sip:48;next_match:40 gates=oracle
/// D_SPELLINGS: pytest.fixture bare / called, `fixture`, `fixture(scope=, autouse=)`, pytest_asyncio.fixture on an
/// async def, name= alias with `request`: six definitions with name, scope, autouse, ordered dependencies; the
/// parameter usages and nothing else.
rec_arm!(c03_spellings, oracle_only_d_spellings, {
    let db = FixtureDatabase::new();
    db.analyze_file(PathBuf::from(PC), T_D_SPELLINGS);
    let want = [ed("a", 4), ED { deps: &["a"], ..ed("b", 6) }, ed("c", 8), ED { scope: M, autouse: true, ..ed("d", 10) },
                ED { deps: &["d", "c"], ..ed("e", 12) }, ed("g", 14)];
    check!("c03.spellings.definitions", defs_are(&db, PC, &want));
    check!("c03.spellings.usages", usages_are(&db, PC, &[EU("a", 6, 6, 7), EU("d", 12, 12, 13), EU("c", 12, 15, 16)]));
    reach!("c03.spellings.end");
    std::mem::forget(db);
});
/// @harness id=c03_not_fixtures props=ATTEMPT tier=thorough unwind=18 mem=14 cap=2400 unwindset=find_inner:3;memchr_seq:400;rec~ParseErrorType:3;rec~LexicalErrorType:3;rec~FStringErrorType:3;rec~drop_glue::<std::io::Error:3;memchr_bytewise:64;sip:48;next_match:40 gates=oracle
/// D_NOT_FIXTURES: helper, plain class method, a decorated function nested in a function, string and comment
/// contents: no definition at all; the only usage is the test parameter.
rec_arm!(c03_not_fixtures, oracle_only_d_not_fixtures, {
    let db = FixtureDatabase::new();
    db.analyze_file(PathBuf::from(PU), T_D_NOT_FIXTURES);
    check!("c03.not_fixtures.definitions", defs_are(&db, PU, &[]));
    check!("c03.not_fixtures.usages", usages_are(&db, PU, &[EU("a", 11, 11, 12)]));
    reach!("c03.not_fixtures.end");
    std::mem::forget(db);
});
/// @harness id=c03_class props=ATTEMPT tier=thorough unwind=18 mem=14 cap=2400 unwindset=find_inner:3;memchr_seq:400;rec~ParseErrorType:3;rec~LexicalErrorType:3;rec~FStringErrorType:3;rec~drop_glue::<std::io::Error:3;memchr_bytewise:64;sip:48;next_match:40 gates=oracle
/// D_CLASS: class-nested fixture and test method (self is no request), usefixtures on a class.
rec_arm!(c03_class, oracle_only_d_class, {
    let db = FixtureDatabase::new();
    db.analyze_file(PathBuf::from(PU), T_D_CLASS);
    check!("c03.class.definitions", defs_are(&db, PU, &[ed("k", 4)]));
    check!("c03.class.usages", usages_are(&db, PU, &[EU("k", 5, 21, 22), EU("k", 6, 26, 27)]));
    reach!("c03.class.end");
    std::mem::forget(db);
});
/// @harness id=c03_yield props=ATTEMPT tier=thorough unwind=18 mem=14 cap=2400 unwindset=find_inner:3;memchr_seq:400;rec~ParseErrorType:3;rec~LexicalErrorType:3;rec~FStringErrorType:3;rec~drop_glue::<std::io::Error:3;memchr_bytewise:64;sip:48;next_match:40 gates=oracle
/// D_YIELD: a nested yield textually before a top-level yield (yield line = the first in source order), a plain
/// `-> int` fixture, a `Generator[int, None, None]` generator with the yield inside `with` (return type = int).
rec_arm!(c03_yield, oracle_only_d_yield, {
    let db = FixtureDatabase::new();
    db.analyze_file(PathBuf::from(PC), T_D_YIELD);
    let want = [ED { yield_line: Some(5), ..ed("y1", 3) }, ED { ret: Some("int"), ..ed("y2", 9) }, ED { yield_line: Some(14), ret: Some("int"), ..ed("y3", 12) }];
    check!("c03.yield.definitions", defs_are(&db, PC, &want));
    reach!("c03.yield.end");
    std::mem::forget(db);
});
/// @harness id=c03_doc props=ATTEMPT tier=thorough unwind=18 mem=14 cap=2400 unwindset=find_inner:3;memchr_seq:400;rec~ParseErrorType:3;rec~LexicalErrorType:3;rec~FStringErrorType:3;rec~drop_glue::<std::io::Error:3;memchr_bytewise:64;sip:48;next_match:40 gates=oracle
/// D_DOC: multi-line docstring with an interior whitespace-only line shorter than the body indentation: cleaned
/// docstring as inspect.cleandoc gives it.
rec_arm!(c03_doc, oracle_only_d_doc, {
    let db = FixtureDatabase::new();
    db.analyze_file(PathBuf::from(PC), T_D_DOC);
    let want = [ED { doc: Some("First line.\n\nBody line one.\n\nBody line two."), ..ed("doc", 3) }];
    check!("c03.doc.definitions", defs_are(&db, PC, &want));
    reach!("c03.doc.end");
    std::mem::forget(db);
});
/// @harness id=c03_assign_marks props=ATTEMPT tier=thorough unwind=18 mem=14 cap=2400 unwindset=find_inner:3;memchr_seq:400;rec~ParseErrorType:3;rec~LexicalErrorType:3;rec~FStringErrorType:3;rec~drop_glue::<std::io::Error:3;memchr_bytewise:64;sip:48;next_match:40 gates=oracle
/// D_ASSIGN: assignment-style fixture `h = pytest.fixture()(_impl)`, pytestmark list, indirect parametrize, test parameter.
rec_arm!(c03_assign_marks, oracle_only_d_assign, {
    let db = FixtureDatabase::new();
    db.analyze_file(PathBuf::from(PU), T_D_ASSIGN);
    check!("c03.assign.definitions", defs_are(&db, PU, &[ed("h", 3)]));
    check!("c03.assign.usages", usages_are(&db, PU, &[EU("h", 4, 39, 40), EU("h", 5, 26, 27), EU("h", 6, 11, 12)]));
    reach!("c03.assign.end");
    std::mem::forget(db);
});
/// @harness id=c03_annotations props=ATTEMPT tier=thorough unwind=18 mem=14 cap=2400 unwindset=find_inner:3;memchr_seq:400;rec~ParseErrorType:3;rec~LexicalErrorType:3;rec~FStringErrorType:3;rec~drop_glue::<std::io::Error:3;memchr_bytewise:64;sip:48;next_match:40 gates=oracle
/// D_ANNOT: return annotations — subscript, attribute | None union, string forward reference; a defaulted
/// parameter (`x: int = 3`, NOT a fixture request in pytest) and a keyword-only one (`y`, a request).
rec_arm!(c03_annotations, oracle_only_d_annot, {
    let db = FixtureDatabase::new();
    db.analyze_file(PathBuf::from(PC), T_D_ANNOT);
    let r12 = [ED { ret: Some("dict[str, int]"), ..ed("r1", 3) }, ED { ret: Some("a.B | None"), ..ed("r2", 5) }];
    let got = defs_of(&db, PC);
    check!("c03.annot.subscript_and_union", r12.iter().all(|w| got.iter().filter(|d| def_ok(d, w)).count() == 1) && got.len() == 3);
    let r3 = got.iter().find(|d| d.name == "r3");
    note!("r3 = {:?}", r3.map(|d| (d.return_type.clone(), d.dependencies.clone())));
    if crate::kf::C03_STRING_ANNOTATION_DEBUG_FORMAT {
        check!("KF:c03.annot.string_forward_reference", r3.map_or(false, |d| d.return_type.as_deref() == Some("T")));
    } else {
        check!("c03.annot.string_forward_reference", r3.map_or(false, |d| d.return_type.as_deref() == Some("T")));
    }
    if crate::kf::C03_DEFAULTED_PARAMETER_IS_REQUEST {
        check!("KF:c03.annot.defaulted_param_is_no_request", r3.map_or(false, |d| d.dependencies.len() == 1 && d.dependencies[0] == "y"));
    } else {
        check!("c03.annot.defaulted_param_is_no_request", r3.map_or(false, |d| d.dependencies.len() == 1 && d.dependencies[0] == "y"));
    }
    reach!("c03.annot.end");
    std::mem::forget(got); std::mem::forget(db);
});
/// @harness id=c03_async_gen props=ATTEMPT tier=thorough unwind=18 mem=14 cap=2400 unwindset=find_inner:3;memchr_seq:400;rec~ParseErrorType:3;rec~LexicalErrorType:3;rec~FStringErrorType:3;rec~drop_glue::<std::io::Error:3;memchr_bytewise:64;sip:48;next_match:40 gates=oracle
/// D_ASYNC_GEN: async generator fixture, yield inside `async with`: generator status and yielded type.
rec_arm!(c03_async_gen, oracle_only_d_async_gen, {
    let db = FixtureDatabase::new();
    db.analyze_file(PathBuf::from(PC), T_D_ASYNC_GEN);
    let got = defs_of(&db, PC);
    let ag = got.iter().find(|d| d.name == "ag");
    note!("ag = {:?}", ag.map(|d| (d.yield_line, d.return_type.clone())));
    check!("c03.async_gen.yield_line", ag.map_or(false, |d| d.yield_line == Some(5)));
    if crate::kf::C03_ASYNC_WITH_YIELD_TYPE_NOT_UNWRAPPED {
        check!("KF:c03.async_gen.yielded_type", ag.map_or(false, |d| d.return_type.as_deref() == Some("int")));
    } else {
        check!("c03.async_gen.yielded_type", ag.map_or(false, |d| d.return_type.as_deref() == Some("int")));
    }
    reach!("c03.async_gen.end");
    std::mem::forget(got); std::mem::forget(db);
});

// ------------------------------------------------------------------------------------------------ C15
/// @harness id=c15_utf16_columns props=ATTEMPT tier=thorough unwind=18 mem=14 cap=2400 unwindset=find_inner:3;memchr_seq:400;rec~ParseErrorType:3;rec~LexicalErrorType:3;rec~FStringErrorType:3;rec~drop_glue::<std::io::Error:3;memchr_bytewise:64;sip:48;next_match:40 gates=oracle
/// D_POS_UTF16: a usefixtures name after a 2-byte (U+00E9) and after a 4-byte (U+1F600) character on the same
/// line: the recorded span must be the string content in UTF-16 columns (31..33 and 32..34).
rec_arm!(c15_utf16_columns, oracle_only_d_pos_utf16, {
    let db = FixtureDatabase::new();
    db.analyze_file(PathBuf::from(PU), T_D_POS_UTF16);
    let got: Vec<FixtureUsage> = db.usages.get(&PathBuf::from(PU)).map(|u| u.value().clone()).unwrap_or_default();
    note!("usages recorded: {:?}", got.iter().map(|u| (u.name.clone(), u.line, u.start_char, u.end_char)).collect::<Vec<_>>());
    let fa = got.iter().find(|u| u.name == "fa");
    let fb = got.iter().find(|u| u.name == "fb");
    check!("c15.utf16.line", fa.map_or(false, |u| u.line == 2) && fb.map_or(false, |u| u.line == 4));
    check!("c15.utf16.well_formed", got.iter().all(|u| u.start_char <= u.end_char));
    if crate::kf::C15_BYTE_COLUMNS_NOT_UTF16 {
        check!("KF:c15.utf16.after_2_byte_char", fa.map_or(false, |u| u.start_char == 31 && u.end_char == 33));
        check!("KF:c15.utf16.after_4_byte_char", fb.map_or(false, |u| u.start_char == 32 && u.end_char == 34));
    } else {
        check!("c15.utf16.after_2_byte_char", fa.map_or(false, |u| u.start_char == 31 && u.end_char == 33));
        check!("c15.utf16.after_4_byte_char", fb.map_or(false, |u| u.start_char == 32 && u.end_char == 34));
    }
    reach!("c15.utf16.end");
    std::mem::forget(got); std::mem::forget(db);
});
/// @harness id=c15_string_literal_forms props=ATTEMPT tier=thorough unwind=18 mem=14 cap=2400 unwindset=find_inner:3;memchr_seq:400;rec~ParseErrorType:3;rec~LexicalErrorType:3;rec~FStringErrorType:3;rec~drop_glue::<std::io::Error:3;memchr_bytewise:64;sip:48;next_match:40 gates=oracle
/// D_POS_LITERALS: usefixtures(r"fa", '''fb''', "fc"): each recorded span must cover exactly the string content.
rec_arm!(c15_string_literal_forms, oracle_only_d_pos_literals, {
    let db = FixtureDatabase::new();
    db.analyze_file(PathBuf::from(PU), T_D_POS_LITERALS);
    let got: Vec<FixtureUsage> = db.usages.get(&PathBuf::from(PU)).map(|u| u.value().clone()).unwrap_or_default();
    note!("usages recorded: {:?}", got.iter().map(|u| (u.name.clone(), u.line, u.start_char, u.end_char)).collect::<Vec<_>>());
    let at = |n: &str| got.iter().find(|u| u.name == n).map(|u| (u.start_char, u.end_char));
    check!("c15.literals.plain", at("fc") == Some((43, 45)));
    check!("c15.literals.count", got.len() == 3);
    if crate::kf::C15_PREFIXED_AND_TRIPLE_QUOTED_SPANS {
        check!("KF:c15.literals.prefixed", at("fa") == Some((27, 29)));
        check!("KF:c15.literals.triple_quoted", at("fb") == Some((35, 37)));
    } else {
        check!("c15.literals.prefixed", at("fa") == Some((27, 29)));
        check!("c15.literals.triple_quoted", at("fb") == Some((35, 37)));
    }
    reach!("c15.literals.end");
    std::mem::forget(got); std::mem::forget(db);
});

// ------------------------------------------------------------------------------------------------ C17
/// @harness id=c17_undeclared_scan props=ATTEMPT tier=thorough unwind=18 mem=16 cap=2400 unwindset=find_inner:3;memchr_seq:400;rec~ParseErrorType:3;rec~LexicalErrorType:3;rec~FStringErrorType:3;rec~drop_glue::<std::io::Error:3;memchr_bytewise:64;sip:48;next_match:40 gates=oracle,seed
/// The sibling conftest (fs, fb — registered FIRST) and the /a conftest (fa, fb, fm, fl) are analysed, then
/// D_U_TEST: `fb` used as call target, argument, attribute base, operand, subscript value and list element is
/// flagged at exactly its position, six times; the parameter fa, the invisible fs, the unknown zz, the
/// module-level fm and the local fl (bound on the line before its use) are not.
rec_arm!(c17_undeclared_scan, oracle_only_d_u_test, {
    let db = FixtureDatabase::new();
    // the two conftests are put into the index from the fresh-index data (gate `seed`), sibling FIRST; the test
    // module is analysed by the real analyzer
    let sib = fresh_d_u_sib(PS); let conf = fresh_d_u_conf(PC);
    crate::h_hist::seed_file_state(&db, PS, T_D_U_SIB, &sib);
    crate::h_hist::seed_file_state(&db, PC, T_D_U_CONF, &conf);
    std::mem::forget(sib); std::mem::forget(conf);
    db.analyze_file(PathBuf::from(PU), T_D_U_TEST);
    let want = [EU("fb", 4, 4, 6), EU("fb", 5, 6, 8), EU("fb", 6, 4, 6), EU("fb", 7, 8, 10), EU("fb", 8, 4, 6), EU("fb", 9, 5, 7)];
    check!("c17.scan.findings_exact", undeclared_are(&db, PU, &want));
    reach!("c17.scan.end");
    std::mem::forget(db);
});

/// quick fix / completion parameter edit: apply what the completion provider derives from
/// get_function_param_insertion_info (`, fx` or `fx` inserted at (line, char_pos)) to the text.
fn apply_insertion(text: &str, function_line: usize) -> Option<String> {
    let db = FixtureDatabase::new();
    let p = PathBuf::from(PU);
    db.file_cache.insert(p.clone(), std::sync::Arc::new(text.to_string()));
    let info = db.get_function_param_insertion_info(&p, function_line);
    let r = info.as_ref().map(|i| {
        let mut out = String::with_capacity(text.len() + 8);
        for (k, l) in text.split('\n').enumerate() {
            if k > 0 { out.push('\n'); }
            if k + 1 == i.line {
                out.push_str(&l[..i.char_pos]);
                out.push_str(if i.needs_comma { ", fx" } else { "fx" });
                out.push_str(&l[i.char_pos..]);
            } else { out.push_str(l); }
        }
        out
    });
    std::mem::forget(info); std::mem::forget(db);
    r
}
macro_rules! ins_case {
    ($text:expr, $line:expr, $want:expr) => {{
        let got = apply_insertion($text, $line);
        note!("text={:?} function_line={} -> {:?}", $text, $line, got);
        let ok = got.as_deref() == Some($want);
        std::mem::forget(got);
        ok
    }};
}
/// @harness id=c17_insertion_templates props=ATTEMPT tier=thorough unwind=60 mem=10 cap=1800
/// get_function_param_insertion_info + the edit derived from it on signature templates, executed one after the other
/// (concretely): no parameter, one parameter, method, async + annotation, multi-line without trailing comma — the
/// edited text must be the same function with `fx` appended as a parameter.
#[cfg_attr(kani, kani::proof)]
#[cfg_attr(kani, kani::stub(std::path::Path::canonicalize, crate::stubs::canonicalize_err))]
#[cfg_attr(kani, kani::stub(core::unicode::unicode_data::white_space::lookup, crate::stubs::uni_white_space))]
#[cfg_attr(kani, kani::stub(core::slice::memchr::memchr, crate::stubs::memchr_bytewise))]
pub fn c17_insertion_templates() {
    crate::stubs::draw_uni_mask();
    check!("c17.insertion.no_parameter", ins_case!("def test_a():\n    pass\n", 1, "def test_a(fx):\n    pass\n"));
    check!("c17.insertion.one_parameter", ins_case!("def test_a(x):\n    pass\n", 1, "def test_a(x, fx):\n    pass\n"));
    check!("c17.insertion.method", ins_case!("class T:\n    def test_m(self):\n        pass\n", 2, "class T:\n    def test_m(self, fx):\n        pass\n"));
    check!("c17.insertion.async_annotated", ins_case!("async def test_a(x: int):\n    pass\n", 1, "async def test_a(x: int, fx):\n    pass\n"));
    check!("c17.insertion.multi_line", ins_case!("def test_a(\n    x\n):\n    pass\n", 1, "def test_a(\n    x\n, fx):\n    pass\n"));
    reach!("c17.insertion.end");
}
/// @harness id=c17_insertion_known_gaps props=ATTEMPT tier=thorough unwind=60 mem=10 cap=1800
/// the signature forms on which the text search is known to go wrong: return annotation (the next function is
/// edited), trailing comma in a multi-line signature (`,,`).
#[cfg_attr(kani, kani::proof)]
#[cfg_attr(kani, kani::stub(std::path::Path::canonicalize, crate::stubs::canonicalize_err))]
#[cfg_attr(kani, kani::stub(core::unicode::unicode_data::white_space::lookup, crate::stubs::uni_white_space))]
#[cfg_attr(kani, kani::stub(core::slice::memchr::memchr, crate::stubs::memchr_bytewise))]
pub fn c17_insertion_known_gaps() {
    crate::stubs::draw_uni_mask();
    let a = ins_case!("def test_a() -> None:\n    pass\n\ndef test_b(x):\n    pass\n", 1, "def test_a(fx) -> None:\n    pass\n\ndef test_b(x):\n    pass\n");
    let b = ins_case!("def test_a(\n    x,\n):\n    pass\n", 1, "def test_a(\n    x,\n    fx):\n    pass\n");
    if crate::kf::C17_INSERTION_TEXT_SEARCH {
        check!("KF:c17.insertion.return_annotation_or_trailing_comma", a && b);
    } else {
        check!("c17.insertion.return_annotation_or_trailing_comma", a && b);
    }
    reach!("c17.insertion_gaps.end");
}

// ---- C17 completion parameter edit, one signature per harness, compared field by field (no string rebuilt).
// Measured: still out of reach — the lines come out of `content.lines().collect::<Vec<&str>>()` with lengths CBMC no
// longer knows, so `line.find("):")` (CharSearcher + memcmp) unwinds to the bound at every candidate position; > 7 min
// for the one-line template without reaching the SAT back end. Kept as props=ATTEMPT (native replay only).
fn insertion_fields(text: &str, function_line: usize) -> Option<(usize, usize, bool)> {
    let db = FixtureDatabase::new();
    let p = PathBuf::from(PU);
    let mut s = String::with_capacity(text.len());
    s.push_str(text);
    db.file_cache.insert(p.clone(), std::sync::Arc::new(s));
    let info = db.get_function_param_insertion_info(&p, function_line);
    let r = info.as_ref().map(|i| (i.line, i.char_pos, i.needs_comma));
    note!("text={:?} function_line={} -> {:?}", text, function_line, r);
    std::mem::forget(info); std::mem::forget(db);
    r
}
macro_rules! ins_arm {
    ($id:ident, $cid:literal, $text:expr, $line:expr, $want:expr) => {
        #[cfg_attr(kani, kani::proof)]
        #[cfg_attr(kani, kani::stub(std::path::Path::canonicalize, crate::stubs::canonicalize_err))]
        #[cfg_attr(kani, kani::stub(core::unicode::unicode_data::white_space::lookup, crate::stubs::uni_white_space))]
        #[cfg_attr(kani, kani::stub(core::slice::memchr::memchr, crate::stubs::memchr_bytewise))]
        pub fn $id() {
            crate::stubs::draw_uni_mask();
            let got = insertion_fields($text, $line);
            check!($cid, got == $want);
            reach!("c17.ins.end");
        }
    };
}
/// @harness id=c17_ins_no_parameter props=ATTEMPT tier=thorough unwind=40 mem=8 cap=900
/// get_function_param_insertion_info on `def test_a():` — insert at (1, 11) without comma, i.e. inside the parentheses.
ins_arm!(c17_ins_no_parameter, "c17.ins.no_parameter", "def test_a():\n    pass\n", 1, Some((1, 11, false)));
/// @harness id=c17_ins_one_parameter props=ATTEMPT tier=thorough unwind=40 mem=8 cap=900
/// `def test_a(x):` — insert at (1, 12) with a comma.
ins_arm!(c17_ins_one_parameter, "c17.ins.one_parameter", "def test_a(x):\n    pass\n", 1, Some((1, 12, true)));
