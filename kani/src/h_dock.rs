//! Docstring-cleaning kernel (C03, "cleaned docstring" only): `format_docstring` compared with what Python's
//! `inspect.cleandoc` returns (the expected strings below were produced by CPython's inspect.cleandoc for exactly
//! these inputs). The rest of C03 (what the analyzer extracts from the syntax tree) is out of solver reach
//! (DESIGN §9.2: AST walks) and is NOT covered by these harnesses.
//! Rows are ASCII, without tabs (cleandoc expands tabs, a policy the property does not state) and without trailing
//! blanks on the first line (cleandoc keeps them, the repository trims them; not asserted either way).
use crate::fixtures::string_utils as su;
use crate::kx::{any, assume};
use crate::stubs;

fn st(t: &str) -> String { let mut o = String::with_capacity(t.len() + 1); o.push_str(t); o }
fn same(a: &str, b: &str) -> bool {
    let (x, y) = (a.as_bytes(), b.as_bytes());
    if x.len() != y.len() { return false; }
    let mut i = 0;
    while i < x.len() { if x[i] != y[i] { return false; } i += 1; }
    true
}
macro_rules! doc {
    ($id:literal, $input:expr, $want:expr) => {{
        let out = su::format_docstring(st($input));
        note!("format_docstring({:?}) = {:?}; inspect.cleandoc gives {:?}", $input, out, $want);
        check!($id, same(out.as_str(), $want));
        std::mem::forget(out);
    }};
}

/// @harness id=c03_doc_first_line_text props=C03 tier=quick unwind=40 mem=8 cap=900
/// Docstrings whose text starts on the line of the opening quotes, executed concretely: one line; summary + indented
/// body + closing-quote line; a body line indented deeper than the margin keeps its extra indentation; a
/// whitespace-only interior line SHORTER than the body indentation does not lower the margin; leading blanks of the
/// first line are dropped; several interior blank lines are kept, trailing ones dropped.
#[cfg_attr(kani, kani::proof)]
#[cfg_attr(kani, kani::stub(core::unicode::unicode_data::white_space::lookup, stubs::uni_white_space))]
#[cfg_attr(kani, kani::stub(core::slice::memchr::memchr, stubs::memchr_bytewise))]
pub fn c03_doc_first_line_text() {
    doc!("c03.doc.one_line", "Summary.", "Summary.");
    doc!("c03.doc.summary_body", "Summary.\n\n    Details.\n    More.\n    ", "Summary.\n\nDetails.\nMore.");
    doc!("c03.doc.relative_indent_kept", "Summary.\n      deep\n    shallow\n    ", "Summary.\n  deep\nshallow");
    doc!("c03.doc.short_blank_line_ignored", "Summary.\n    x\n  \n    y\n    ", "Summary.\nx\n\ny");
    doc!("c03.doc.first_line_lstripped", "  Summary.\n    x", "Summary.\nx");
    doc!("c03.doc.blank_runs", "Summary.\n\n\n    x\n\n", "Summary.\n\n\nx");
    reach!("c03_doc_first_line_text.end");
}

/// @harness id=c03_doc_first_line_empty props=C03 tier=quick unwind=40 mem=8 cap=900
/// Docstrings that start with a line break after the opening quotes (the common multi-line style), executed
/// concretely: the first text line takes part in the margin like every other line, so deeper lines keep their
/// relative indentation.
#[cfg_attr(kani, kani::proof)]
#[cfg_attr(kani, kani::stub(core::unicode::unicode_data::white_space::lookup, stubs::uni_white_space))]
#[cfg_attr(kani, kani::stub(core::slice::memchr::memchr, stubs::memchr_bytewise))]
pub fn c03_doc_first_line_empty() {
    doc!("c03.doce.flat", "\n\n    a\n    b\n", "a\nb");
    if crate::kf::C03_DOCSTRING_MARGIN_SKIPS_FIRST_TEXT_LINE {
        doc!("KF:c03.doce.relative_indent", "\n    a\n      b\n    ", "a\n  b");
    } else {
        doc!("c03.doce.relative_indent", "\n    a\n      b\n    ", "a\n  b");
        doc!("c03.doce.code_block", "\n    Summary.\n\n        code\n    ", "Summary.\n\n    code");
    }
    reach!("c03_doc_first_line_empty.end");
}

/// @harness id=c03_doc_symbolic_indents props=C03 tier=thorough unwind=40 mem=10 cap=1200
/// "S\n" + i spaces + "x\n" + j spaces + "y" for ALL 0 <= i, j <= 4 (symbolic): both continuation lines lose exactly
/// min(i, j) blanks, i.e. the result is "S\n" + (i-m) spaces + "x\n" + (j-m) spaces + "y".
#[cfg_attr(kani, kani::proof)]
#[cfg_attr(kani, kani::stub(core::unicode::unicode_data::white_space::lookup, stubs::uni_white_space))]
#[cfg_attr(kani, kani::stub(core::slice::memchr::memchr, stubs::memchr_bytewise))]
pub fn c03_doc_symbolic_indents() {
    let i: usize = any(); let j: usize = any();
    assume(i <= 4 && j <= 4);
    let mut t = String::with_capacity(24);
    t.push_str("S\n");
    let mut k = 0; while k < i { t.push(' '); k += 1; }
    t.push_str("x\n");
    let mut k = 0; while k < j { t.push(' '); k += 1; }
    t.push('y');
    note!("format_docstring({:?})", t);
    let out = su::format_docstring(t);
    let m = if i < j { i } else { j };
    let b = out.as_bytes();
    // expected layout, checked bytewise
    let want_len = 2 + (i - m) + 2 + (j - m) + 1;
    let mut ok = b.len() == want_len;
    if ok {
        ok = b[0] == b'S' && b[1] == b'\n';
        let mut p = 2; let mut k = 0;
        while k < i - m { ok = ok && b[p] == b' '; p += 1; k += 1; }
        ok = ok && b[p] == b'x' && b[p + 1] == b'\n'; p += 2;
        let mut k = 0;
        while k < j - m { ok = ok && b[p] == b' '; p += 1; k += 1; }
        ok = ok && b[p] == b'y';
    }
    note!("= {:?} (expected margin {})", out, m);
    check!("c03.docs.margin_is_min", ok);
    reach!("c03_doc_symbolic_indents.end");
    std::mem::forget(out);
}

/// @harness id=c03_doc_symbolic_indent_one props=C03 tier=thorough unwind=40 mem=10 cap=1200
/// "S\n" + i spaces + "x\n  y" for ALL 0 <= i <= 3 (symbolic; the last line is indented by two): the margin removed is
/// min(i, 2).
#[cfg_attr(kani, kani::proof)]
#[cfg_attr(kani, kani::stub(core::unicode::unicode_data::white_space::lookup, stubs::uni_white_space))]
#[cfg_attr(kani, kani::stub(core::slice::memchr::memchr, stubs::memchr_bytewise))]
pub fn c03_doc_symbolic_indent_one() {
    let i: usize = any();
    assume(i <= 3);
    let mut t = String::with_capacity(16);
    t.push_str("S\n");
    let mut k = 0; while k < i { t.push(' '); k += 1; }
    t.push_str("x\n  y");
    note!("format_docstring({:?})", t);
    let out = su::format_docstring(t);
    let ok = match i {
        0 => same(out.as_str(), "S\nx\n  y"),
        1 => same(out.as_str(), "S\nx\n y"),
        2 => same(out.as_str(), "S\nx\ny"),
        _ => same(out.as_str(), "S\n x\ny"),
    };
    note!("= {:?}", out);
    check!("c03.docs1.margin_is_min", ok);
    reach!("c03_doc_symbolic_indent_one.end");
    std::mem::forget(out);
}
