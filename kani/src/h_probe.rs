//! scratch probes (not part of any property)
use crate::fixtures::{FixtureDatabase, FixtureDefinition, FixtureUsage};
use crate::kx::{any, assume};
use crate::world::*;
use std::path::{Path, PathBuf};
use std::sync::Arc;

fn mini(text: &'static str, uline: usize, s: usize, e: usize) -> FixtureDatabase {
    let db = FixtureDatabase::new();
    let mut w = World::new(&[C0, U]);
    w.def(C0, "f", 4);
    let mut v = Vec::with_capacity(2);
    v.push(mk_def(&w.defs[0]));
    db.definitions.insert("f".to_string(), v);
    db.file_cache.insert(PathBuf::from(path(U)), Arc::new(text.to_string()));
    let mut us = Vec::with_capacity(2);
    us.push(mk_use(U, "f", uline, s, e));
    db.usages.insert(PathBuf::from(path(U)), us);
    std::mem::forget(w);
    db
}
fn q(text: &'static str, uline: usize, s: usize, e: usize, maxcol: u32) {
    let db = mini(text, uline, s, e);
    let col: u32 = any();
    assume(col < maxcol);
    let got = db.find_fixture_definition(Path::new(path(U)), (uline - 1) as u32, col);
    let inside = (col as usize) >= s && (col as usize) < e;
    check!("probe.inside", !inside || got.as_ref().map(|d| d.line) == Some(4));
    check!("probe.outside", inside || got.is_none());
    reach!("probe.end");
    std::mem::forget(got); std::mem::forget(db);
}
macro_rules! parm {
    ($id:ident, $body:expr) => {
        #[cfg_attr(kani, kani::proof)]
        #[cfg_attr(kani, kani::stub(std::path::Path::exists, crate::stubs::path_exists_false))]
        #[cfg_attr(kani, kani::stub(crate::fixtures::FixtureDatabase::is_fixture_imported_in_file, crate::world::stub_is_imported))]
        #[cfg_attr(kani, kani::stub(core::unicode::unicode_data::alphabetic::lookup, crate::stubs::uni_alphabetic))]
        #[cfg_attr(kani, kani::stub(core::unicode::unicode_data::n::lookup, crate::stubs::uni_numeric))]
        pub fn $id() { $body }
    };
}
/// @harness id=probe_1line props=PROBE unwind=26 mem=8 cap=600
/// one-line file
parm!(probe_1line, q("def test_x(f): pass\n", 1, 11, 12, 24));
/// @harness id=probe_8line props=PROBE unwind=26 mem=8 cap=600
/// 8-line file
parm!(probe_8line, q("import pytest\n#\n#\n#\n#\n#\n#\ndef test_x(f): pass\n", 8, 11, 12, 24));
/// @harness id=probe_1line_narrow props=PROBE unwind=26 mem=8 cap=600
/// one-line file, col < 4 window
parm!(probe_1line_narrow, { 
    let db = mini("def test_x(f): pass\n", 1, 11, 12);
    let col: u32 = any();
    assume(col >= 9 && col < 14);
    let got = db.find_fixture_definition(Path::new(path(U)), 0, col);
    let inside = col == 11;
    check!("probe.inside", !inside || got.as_ref().map(|d| d.line) == Some(4));
    check!("probe.outside", inside || got.is_none());
    reach!("probe.end");
    std::mem::forget(got); std::mem::forget(db);
});
