//! Configuration kernel (C19, configuration half): `Config::from_raw` validates the raw `[tool.pytest-language-server]`
//! table entry by entry. `from_raw` and `RawConfig` are private to `config/mod.rs`, so the file's TEXT (minus inner doc
//! lines and its test module) is copied by `tools/extract.py` from /repo's current working tree into `gen/cfgk.rs` at
//! every run and included here; the harnesses then live in the same module.
use crate::kx::{any, assume};
use crate::stubs;

include!("gen/cfgk.rs");

/// an ASCII string of concrete length N with symbolic content
fn ascii<const N: usize>() -> String {
    let b: [u8; N] = any();
    let mut s = String::with_capacity(N);
    let mut i = 0;
    while i < N {
        assume(b[i] < 128);
        s.push(b[i] as char);
        i += 1;
    }
    s
}
fn s(t: &str) -> String { let mut o = String::with_capacity(t.len()); o.push_str(t); o }

/// @harness id=c19_codes_unknown_dropped_individually props=C19 tier=quick unwind=24 mem=8 cap=900
/// Config::from_raw, executed concretely, with disabled_diagnostics = ["scope-mismatch", "bogus", "circular-dependency",
/// "no-such-code", ""]: the two documented codes are kept, each unknown entry (two unknown words, the empty string) is
/// dropped on its own — the entries after it are still honoured —, is_diagnostic_disabled answers accordingly for all
/// three documented codes, and the other settings (skip_plugins, fixture_paths) arrive unchanged.
#[cfg_attr(kani, kani::proof)]
#[cfg_attr(kani, kani::stub(core::slice::memchr::memchr, stubs::memchr_bytewise))]
pub fn c19_codes_unknown_dropped_individually() {
    let mut dd: Vec<String> = Vec::with_capacity(5);
    dd.push(s("scope-mismatch")); dd.push(s("bogus")); dd.push(s("circular-dependency")); dd.push(s("no-such-code")); dd.push(s(""));
    let mut sp: Vec<String> = Vec::with_capacity(1);
    sp.push(s("pytest-django"));
    let raw = RawConfig { exclude: Vec::new(), disabled_diagnostics: dd, fixture_paths: Vec::new(), skip_plugins: sp };
    let c = Config::from_raw(raw, Path::new("/w/pyproject.toml"));
    check!("c19.codes.count", c.disabled_diagnostics.len() == 2);
    check!("c19.codes.scope_mismatch", c.is_diagnostic_disabled("scope-mismatch"));
    check!("c19.codes.circular", c.is_diagnostic_disabled("circular-dependency"));
    check!("c19.codes.undeclared", !c.is_diagnostic_disabled("undeclared-fixture"));
    check!("c19.codes.unknown_never_listed", !c.is_diagnostic_disabled("bogus") && !c.is_diagnostic_disabled("no-such-code") && !c.is_diagnostic_disabled(""));
    check!("c19.codes.other_settings_kept", c.skip_plugins.len() == 1 && c.should_skip_plugin("pytest-django") && c.fixture_paths.is_empty());
    reach!("c19.codes.end");
    std::mem::forget(c);
}

/// @harness id=c19_codes_any_text14 props=ATTEMPT tier=thorough unwind=24 mem=12 cap=1800
/// (ATTEMPT: the filtered Vec<String> of symbolic-content strings exceeded 12 GB in propositional reduction.)
/// Config::from_raw with disabled_diagnostics = [X] for EVERY ASCII string X of 14 bytes (the length of
/// "scope-mismatch"): X is kept iff it is literally that code; the other two codes are never reported disabled.
#[cfg_attr(kani, kani::proof)]
#[cfg_attr(kani, kani::stub(core::slice::memchr::memchr, stubs::memchr_bytewise))]
pub fn c19_codes_any_text14() {
    let x14 = ascii::<14>();
    let is_sm = x14.as_bytes() == b"scope-mismatch";
    note!("disabled_diagnostics = [{:?}]", x14);
    let mut dd: Vec<String> = Vec::with_capacity(1);
    dd.push(x14);
    let raw = RawConfig { exclude: Vec::new(), disabled_diagnostics: dd, fixture_paths: Vec::new(), skip_plugins: Vec::new() };
    let c = Config::from_raw(raw, Path::new("/w/pyproject.toml"));
    check!("c19.any14.kept_iff_code", (c.disabled_diagnostics.len() == 1) == is_sm && c.is_diagnostic_disabled("scope-mismatch") == is_sm);
    check!("c19.any14.others_untouched", !c.is_diagnostic_disabled("circular-dependency") && !c.is_diagnostic_disabled("undeclared-fixture"));
    reach!("c19.any14.end");
    std::mem::forget(c);
}

/// @harness id=c19_bad_glob_individually props=C19 tier=quick unwind=24 mem=10 cap=1200
/// Config::from_raw, executed concretely, with exclude = ["a", "[", "b"] ("[" is an invalid glob) next to one unknown
/// and one valid diagnostic code: exactly the two valid patterns survive (checked through should_exclude on the paths
/// a, b, c) and the invalid pattern does not disable the diagnostic settings next to it.
#[cfg_attr(kani, kani::proof)]
#[cfg_attr(kani, kani::stub(core::slice::memchr::memchr, stubs::memchr_bytewise))]
pub fn c19_bad_glob_individually() {
    let mut ex: Vec<String> = Vec::with_capacity(3);
    ex.push(s("a")); ex.push(s("[")); ex.push(s("b"));
    let mut dd: Vec<String> = Vec::with_capacity(2);
    dd.push(s("nope")); dd.push(s("scope-mismatch"));
    let raw = RawConfig { exclude: ex, disabled_diagnostics: dd, fixture_paths: Vec::new(), skip_plugins: Vec::new() };
    let c = Config::from_raw(raw, Path::new("/w/pyproject.toml"));
    check!("c19.glob.two_survive", c.exclude.len() == 2);
    check!("c19.glob.match_a", c.should_exclude(Path::new("a")));
    check!("c19.glob.match_b", c.should_exclude(Path::new("b")));
    check!("c19.glob.match_c", !c.should_exclude(Path::new("c")));
    check!("c19.glob.codes_unaffected", c.is_diagnostic_disabled("scope-mismatch") && c.disabled_diagnostics.len() == 1);
    reach!("c19.glob.end");
    std::mem::forget(c);
}

macro_rules! unknown_code_arm {
    ($id:ident, $n:literal) => {
        #[cfg_attr(kani, kani::proof)]
        #[cfg_attr(kani, kani::stub(core::slice::memchr::memchr, stubs::memchr_bytewise))]
        pub fn $id() {
            let b: [u8; $n] = any();
            if let Ok(x) = std::str::from_utf8(&b[..]) {
                note!("disabled_diagnostics = [{:?}, \"scope-mismatch\"]", x);
                let mut xs = String::with_capacity($n);
                xs.push_str(x);
                let mut dd: Vec<String> = Vec::with_capacity(2);
                dd.push(xs); dd.push(s("scope-mismatch"));
                let raw = RawConfig { exclude: Vec::new(), disabled_diagnostics: dd, fixture_paths: Vec::new(), skip_plugins: Vec::new() };
                let c = Config::from_raw(raw, Path::new("/w/pyproject.toml"));
                check!("c19.anyutf8.only_the_known_code", c.disabled_diagnostics.len() == 1 && c.is_diagnostic_disabled("scope-mismatch"));
                reach!("c19.anyutf8.end");
                std::mem::forget(c);
            }
        }
    };
}
/// @harness id=c19_unknown_code_utf8_len6 props=C19 tier=quick unwind=24 mem=10 cap=900
/// Config::from_raw with disabled_diagnostics = [X, "scope-mismatch"] for EVERY valid UTF-8 string X of exactly 6 bytes
/// (so: every placement of 2-, 3- and 4-byte characters in a short unknown code): no panic, X is dropped on its own and
/// the documented code after it stays disabled. (Whatever the validator does with the text of an unknown code — build a
/// message, look for a near match — it must not take the server down.)
unknown_code_arm!(c19_unknown_code_utf8_len6, 6);
/// @harness id=c19_unknown_code_utf8_len5 props=C19 tier=thorough unwind=24 mem=10 cap=900
/// the same for every valid UTF-8 string of exactly 5 bytes.
unknown_code_arm!(c19_unknown_code_utf8_len5, 5);
/// @harness id=c19_unknown_code_utf8_len7 props=C19 tier=quick unwind=24 mem=10 cap=900
/// the same for every valid UTF-8 string of exactly 7 bytes.
unknown_code_arm!(c19_unknown_code_utf8_len7, 7);
