//! Reference models, written from pytest's documented behaviour and the property statements over the
//! abstract `World` — they share no code with the repository.
use crate::fixtures::FixtureScope;
use crate::world::*;

/// Which definition pytest injects for `name` requested from file `from` — index into `w.defs`.
/// `excluding`: the requesting definition itself (a fixture's own same-named parameter resolves outward).
pub fn resolve(w: &World, from: u8, name: &str, excluding: Option<usize>) -> Option<usize> {
    let ok = |i: usize| w.defs[i].name == name && Some(i) != excluding;
    // 1. same file: the last definition (by line) wins
    let mut best: Option<usize> = None;
    for i in 0..w.defs.len() {
        if ok(i) && w.defs[i].file == from && w.has_file(from) {
            if best.map_or(true, |b| w.defs[i].line > w.defs[b].line) { best = Some(i); }
        }
    }
    if best.is_some() { return best; }
    // 2. conftest walk, nearest first: own definition, else a fixture it imports (from M)
    let levels: &[u8] = match dir_of(from) { 1 => &[C1, C0], 2 => &[S, C0], 0 => &[C0], 4 => &[C2, C1, C0], _ => &[] };
    for &c in levels {
        if !w.has_file(c) { continue; }
        // several definitions of one name in one conftest: python rebinding — the last one wins
        let mut own: Option<usize> = None;
        for i in 0..w.defs.len() {
            if ok(i) && w.defs[i].file == c {
                if own.map_or(true, |b| w.defs[i].line > w.defs[b].line) { own = Some(i); }
            }
        }
        if own.is_some() { return own; }
        let imp = if c == C1 { w.imp_c1 } else if c == C0 { w.imp_c0 } else { Imp { on: false, kind: 0 } };
        if imp.on && w.has_file(M) {
            let mut m: Option<usize> = None;
            for i in 0..w.defs.len() {
                if ok(i) && w.defs[i].file == M {
                    if m.map_or(true, |b| w.defs[i].line > w.defs[b].line) { m = Some(i); }
                }
            }
            if m.is_some() { return m; }
        }
    }
    // 3. workspace plugin, 4. third party
    for i in 0..w.defs.len() { if ok(i) && w.defs[i].file == P && w.has_file(P) { return Some(i); } }
    for i in 0..w.defs.len() { if ok(i) && w.defs[i].file == V && w.has_file(V) { return Some(i); } }
    None
}

/// Files from which a definition in file `f` can ever be visible (for "never returned" assertions).
pub fn may_be_visible(w: &World, from: u8, i: usize) -> bool {
    let f = w.defs[i].file;
    if f == from { return true; }
    match f {
        C0 => true,
        C1 => dir_of(from) == 1 || dir_of(from) == 4,
        C2 => dir_of(from) == 4,
        S => dir_of(from) == 2,
        M => (w.imp_c1.on && w.has_file(C1) && (dir_of(from) == 1 || dir_of(from) == 4)) || (w.imp_c0.on && w.has_file(C0)),
        P | V => true,
        _ => false,
    }
}

pub fn scope_rank(s: FixtureScope) -> u8 {
    match s { FixtureScope::Function => 0, FixtureScope::Class => 1, FixtureScope::Module => 2, FixtureScope::Package => 3, FixtureScope::Session => 4 }
}
pub fn scope_from(k: u8) -> FixtureScope {
    match k % 5 { 0 => FixtureScope::Function, 1 => FixtureScope::Class, 2 => FixtureScope::Module, 3 => FixtureScope::Package, _ => FixtureScope::Session }
}
