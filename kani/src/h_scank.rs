//! Discovery kernel (C13): which walked paths does `scan_workspace_with_excludes` index?
//!
//! The decision is written inline in the function (a `filter_entry` predicate deciding which directories are descended
//! into, and the body of the walk loop deciding which yielded paths are kept). `tools/extract.py` copies the TEXT of
//! both blocks from /repo's current working tree into `gen/scank.rs` at every run, wrapped as two associated functions
//! (nothing inside the blocks is rewritten). The directory walk itself (walkdir, FFI) is replaced by its documented
//! contract: an entry is yielded iff the predicate accepted the root (depth 0) and every directory above the entry;
//! files are handed to the loop body with their full path.
use crate::fixtures::FixtureDatabase;
use crate::kx::{any, assume};
use crate::stubs;
use glob::Pattern;
use std::ffi::OsStr;
use std::path::{Path, PathBuf};
use tracing::debug;

/// stand-in for walkdir::DirEntry with the methods the predicate may call
pub struct VEntry { is_file: bool, name: String, depth: usize, path: PathBuf }
pub struct VFileType { is_file: bool }
impl VFileType {
    pub fn is_file(&self) -> bool { self.is_file }
    pub fn is_dir(&self) -> bool { !self.is_file }
}
impl VEntry {
    pub fn file_type(&self) -> VFileType { VFileType { is_file: self.is_file } }
    pub fn file_name(&self) -> &OsStr { OsStr::new(self.name.as_str()) }
    pub fn depth(&self) -> usize { self.depth }
    pub fn path(&self) -> &Path { self.path.as_path() }
}

include!("gen/scank.rs");

fn st(t: &str) -> String { let mut o = String::with_capacity(t.len()); o.push_str(t); o }
fn ent(is_file: bool, name: &str, depth: usize, path: &str) -> VEntry { VEntry { is_file, name: st(name), depth, path: PathBuf::from(path) } }

/// Is the file `root/<dirs>/<fname>` indexed by a scan of `root`? (walk contract + the two extracted blocks)
fn indexed(root: &str, dirs: &[&str], fname: &str, pats: &[Pattern]) -> bool {
    // last component of the root, by a plain byte loop (`str::rfind` goes through memrchr's alignment split, which
    // CBMC cannot fold)
    let rb = root.as_bytes();
    let mut cut = rb.len();
    while cut > 0 && rb[cut - 1] != b'/' { cut -= 1; }
    let root_name = &root[cut..];
    let mut p = String::with_capacity(64);
    p.push_str(root);
    let e = ent(false, root_name, 0, &p);
    let ok = FixtureDatabase::verif_filter_entry(&e);
    std::mem::forget(e);
    if !ok { return false; }
    let mut depth = 1;
    for d in dirs {
        p.push('/');
        p.push_str(d);
        let e = ent(false, d, depth, &p);
        let ok = FixtureDatabase::verif_filter_entry(&e);
        std::mem::forget(e);
        if !ok { return false; }
        depth += 1;
    }
    p.push('/');
    p.push_str(fname);
    let e = ent(true, fname, depth, &p);
    let ok = FixtureDatabase::verif_filter_entry(&e);
    std::mem::forget(e);
    if !ok { return false; }
    let mut out: Vec<PathBuf> = Vec::with_capacity(2);
    FixtureDatabase::verif_walk_decide(Path::new(p.as_str()), Path::new(root), pats, &mut out);
    let n = out.len();
    std::mem::forget(out);
    n == 1
}

macro_rules! row {
    ($id:literal, $root:expr, $dirs:expr, $fname:expr, $pats:expr, $want:expr) => {{
        let dirs: &[&str] = $dirs;
        let got = indexed($root, dirs, $fname, $pats);
        note!("scan of {:?}: {:?} / {:?} indexed={} expected={}", $root, dirs, $fname, got, $want);
        check!($id, got == $want);
    }};
}

/// @harness id=c13_file_names_indexed props=C13 tier=quick unwind=40 mem=8 cap=900
/// The three file-name forms, executed concretely: under /w/t the files conftest.py, test_a.py, a_test.py, test_.py
/// and _test.py are indexed.
#[cfg_attr(kani, kani::proof)]
#[cfg_attr(kani, kani::stub(core::slice::memchr::memchr, stubs::memchr_bytewise))]
#[cfg_attr(kani, kani::stub(core::str::from_utf8, stubs::from_utf8_ascii))]
pub fn c13_file_names_indexed() {
    let no: [Pattern; 0] = [];
    row!("c13.names.conftest", "/w", &["t"], "conftest.py", &no, true);
    row!("c13.names.test_prefix", "/w", &["t"], "test_a.py", &no, true);
    row!("c13.names.test_suffix", "/w", &["t"], "a_test.py", &no, true);
    row!("c13.names.test_prefix_empty_star", "/w", &["t"], "test_.py", &no, true);
    row!("c13.names.test_suffix_empty_star", "/w", &["t"], "_test.py", &no, true);
    reach!("c13_file_names_indexed.end");
}

/// @harness id=c13_file_names_other_a props=C13 tier=quick unwind=40 mem=8 cap=900
/// Near misses of the file-name forms are NOT indexed (concrete): conftest.pyc, test_a.txt, tests.py, atest_.py.
#[cfg_attr(kani, kani::proof)]
#[cfg_attr(kani, kani::stub(core::slice::memchr::memchr, stubs::memchr_bytewise))]
#[cfg_attr(kani, kani::stub(core::str::from_utf8, stubs::from_utf8_ascii))]
pub fn c13_file_names_other_a() {
    let no: [Pattern; 0] = [];
    row!("c13.names.pyc", "/w", &["t"], "conftest.pyc", &no, false);
    row!("c13.names.txt", "/w", &["t"], "test_a.txt", &no, false);
    row!("c13.names.tests_py", "/w", &["t"], "tests.py", &no, false);
    row!("c13.names.atest", "/w", &["t"], "atest_.py", &no, false);
    reach!("c13_file_names_other_a.end");
}

/// @harness id=c13_file_names_other_b props=C13 tier=quick unwind=40 mem=8 cap=900
/// Near misses of the file-name forms are NOT indexed (concrete): Test_a.py, a_test.pyi, testa.py, conftest_py.
#[cfg_attr(kani, kani::proof)]
#[cfg_attr(kani, kani::stub(core::slice::memchr::memchr, stubs::memchr_bytewise))]
#[cfg_attr(kani, kani::stub(core::str::from_utf8, stubs::from_utf8_ascii))]
pub fn c13_file_names_other_b() {
    let no: [Pattern; 0] = [];
    row!("c13.names.case", "/w", &["t"], "Test_a.py", &no, false);
    row!("c13.names.pyi", "/w", &["t"], "a_test.pyi", &no, false);
    row!("c13.names.no_underscore", "/w", &["t"], "testa.py", &no, false);
    row!("c13.names.conftest_py", "/w", &["t"], "conftest_py", &no, false);
    reach!("c13_file_names_other_b.end");
}

/// @harness id=c13_ignored_dirs_vcs_venv props=C13 tier=quick unwind=40 mem=8 cap=900
/// Ignored directories, executed concretely: a test file below .git, .hg (one level deeper), .venv/lib, venv is not indexed.
#[cfg_attr(kani, kani::proof)]
#[cfg_attr(kani, kani::stub(core::slice::memchr::memchr, stubs::memchr_bytewise))]
#[cfg_attr(kani, kani::stub(core::str::from_utf8, stubs::from_utf8_ascii))]
pub fn c13_ignored_dirs_vcs_venv() {
    let no: [Pattern; 0] = [];
    row!("c13.dirs.git", "/w", &[".git"], "test_a.py", &no, false);
    row!("c13.dirs.hg", "/w", &["x", ".hg"], "test_a.py", &no, false);
    row!("c13.dirs.dotvenv", "/w", &[".venv", "lib"], "test_a.py", &no, false);
    row!("c13.dirs.venv", "/w", &["venv"], "conftest.py", &no, false);
    reach!("c13_ignored_dirs_vcs_venv.end");
}

/// @harness id=c13_ignored_dirs_cache_build props=C13 tier=quick unwind=40 mem=8 cap=900
/// Ignored directories, executed concretely: below t/__pycache__, .pytest_cache, build/lib, dist, pkg.egg-info nothing is indexed.
#[cfg_attr(kani, kani::proof)]
#[cfg_attr(kani, kani::stub(core::slice::memchr::memchr, stubs::memchr_bytewise))]
#[cfg_attr(kani, kani::stub(core::str::from_utf8, stubs::from_utf8_ascii))]
pub fn c13_ignored_dirs_cache_build() {
    let no: [Pattern; 0] = [];
    row!("c13.dirs.pycache", "/w", &["t", "__pycache__"], "test_a.py", &no, false);
    row!("c13.dirs.pytest_cache", "/w", &[".pytest_cache"], "test_a.py", &no, false);
    row!("c13.dirs.build", "/w", &["build", "lib"], "test_a.py", &no, false);
    row!("c13.dirs.dist", "/w", &["dist"], "a_test.py", &no, false);
    row!("c13.dirs.egg_info", "/w", &["pkg.egg-info"], "test_a.py", &no, false);
    reach!("c13_ignored_dirs_cache_build.end");
}

/// @harness id=c13_ordinary_dirs props=C13 tier=quick unwind=40 mem=8 cap=900
/// Ordinary directories are descended into (concrete): tests/test_a.py, src/pkg/conftest.py, gitx/test_a.py.
#[cfg_attr(kani, kani::proof)]
#[cfg_attr(kani, kani::stub(core::slice::memchr::memchr, stubs::memchr_bytewise))]
#[cfg_attr(kani, kani::stub(core::str::from_utf8, stubs::from_utf8_ascii))]
pub fn c13_ordinary_dirs() {
    let no: [Pattern; 0] = [];
    row!("c13.dirs.tests", "/w", &["tests"], "test_a.py", &no, true);
    row!("c13.dirs.src", "/w", &["src", "pkg"], "conftest.py", &no, true);
    row!("c13.dirs.gitx", "/w", &["gitx"], "test_a.py", &no, true);
    reach!("c13_ordinary_dirs.end");
}

/// @harness id=c13_lookalike_dirs props=C13 tier=quick unwind=40 mem=8 cap=900
/// Names that merely resemble ignored ones are descended into (concrete): builds, .gith, egg-info.
#[cfg_attr(kani, kani::proof)]
#[cfg_attr(kani, kani::stub(core::slice::memchr::memchr, stubs::memchr_bytewise))]
#[cfg_attr(kani, kani::stub(core::str::from_utf8, stubs::from_utf8_ascii))]
pub fn c13_lookalike_dirs() {
    let no: [Pattern; 0] = [];
    row!("c13.dirs.builds", "/w", &["builds"], "test_a.py", &no, true);
    row!("c13.dirs.dot_gith", "/w", &[".gith"], "test_a.py", &no, true);
    row!("c13.dirs.egg_info_plain", "/w", &["egg-info"], "test_a.py", &no, true);
    reach!("c13_lookalike_dirs.end");
}

/// @harness id=c13_relocation props=C13 tier=quick unwind=40 mem=8 cap=900
/// "Wherever the workspace lives", executed concretely: the same root-relative file (tests/test_a.py, and conftest.py
/// directly in the root) is indexed whether the root is /w, /home/u/w, or a root below a directory that carries an ignored
/// NAME (/build/w, /srv/venv/w): ignored names only count below the root.
#[cfg_attr(kani, kani::proof)]
#[cfg_attr(kani, kani::stub(core::slice::memchr::memchr, stubs::memchr_bytewise))]
#[cfg_attr(kani, kani::stub(core::str::from_utf8, stubs::from_utf8_ascii))]
pub fn c13_relocation() {
    let no: [Pattern; 0] = [];
    row!("c13.reloc.w", "/w", &["tests"], "test_a.py", &no, true);
    row!("c13.reloc.home", "/home/u/w", &["tests"], "test_a.py", &no, true);
    row!("c13.reloc.home_conftest", "/home/u/w", &[], "conftest.py", &no, true);
    if crate::kf::C13_ROOT_BELOW_OR_NAMED_IGNORED {
        row!("KF:c13.reloc.under_build", "/build/w", &["tests"], "test_a.py", &no, true);
    } else {
        row!("c13.reloc.under_build", "/build/w", &["tests"], "test_a.py", &no, true);
        row!("c13.reloc.under_venv", "/srv/venv/w", &["tests"], "test_a.py", &no, true);
    }
    reach!("c13_relocation.end");
}

/// @harness id=c13_relocation_named props=C13 tier=quick unwind=40 mem=8 cap=900
/// The same for a root below ~/.local, below a *.egg-info directory, and a root that is ITSELF called build; and ignored
/// names below such a root still count (/build/w/dist/test_a.py is not indexed).
#[cfg_attr(kani, kani::proof)]
#[cfg_attr(kani, kani::stub(core::slice::memchr::memchr, stubs::memchr_bytewise))]
#[cfg_attr(kani, kani::stub(core::str::from_utf8, stubs::from_utf8_ascii))]
pub fn c13_relocation_named() {
    let no: [Pattern; 0] = [];
    if crate::kf::C13_ROOT_BELOW_OR_NAMED_IGNORED {
        row!("KF:c13.reloc.under_build", "/home/u/.local/w", &[], "conftest.py", &no, true);
    } else {
        row!("c13.reloc.under_dot_local", "/home/u/.local/w", &[], "conftest.py", &no, true);
        row!("c13.reloc.under_egg_info", "/ci/pkg.egg-info/w", &["tests"], "test_a.py", &no, true);
        row!("c13.reloc.root_named_build", "/home/u/build", &["tests"], "test_a.py", &no, true);
    }
    row!("c13.reloc.under_build_ignored_below", "/build/w", &["dist"], "test_a.py", &no, false);
    reach!("c13_relocation_named.end");
}

/// @harness id=c13_exclude_patterns props=C13 tier=quick unwind=40 mem=10 cap=1500
/// Configured exclude patterns are matched against ROOT-RELATIVE paths, executed concretely with the pattern "gen/*":
/// gen/test_a.py is excluded and t/test_a.py is indexed under the root /w.
#[cfg_attr(kani, kani::proof)]
#[cfg_attr(kani, kani::stub(core::slice::memchr::memchr, stubs::memchr_bytewise))]
#[cfg_attr(kani, kani::stub(core::str::from_utf8, stubs::from_utf8_ascii))]
pub fn c13_exclude_patterns() {
    let mut pats: Vec<Pattern> = Vec::with_capacity(1);
    if let Ok(p) = Pattern::new("gen/*") { pats.push(p); }
    check!("c13.excl.patterns_built", pats.len() == 1);
    row!("c13.excl.gen", "/w", &["gen"], "test_a.py", &pats[..], false);
    row!("c13.excl.kept", "/w", &["t"], "test_a.py", &pats[..], true);
    reach!("c13.excl.end");
    std::mem::forget(pats);
}

/// @harness id=c13_exclude_patterns_relocated props=C13 tier=quick unwind=40 mem=10 cap=1500
/// The same verdicts for the root /gen/w, whose ABSOLUTE path contains "gen/": gen/test_a.py excluded, t/test_a.py
/// indexed (a pattern matched against the absolute path would exclude everything).
#[cfg_attr(kani, kani::proof)]
#[cfg_attr(kani, kani::stub(core::slice::memchr::memchr, stubs::memchr_bytewise))]
#[cfg_attr(kani, kani::stub(core::str::from_utf8, stubs::from_utf8_ascii))]
pub fn c13_exclude_patterns_relocated() {
    let mut pats: Vec<Pattern> = Vec::with_capacity(1);
    if let Ok(p) = Pattern::new("gen/*") { pats.push(p); }
    check!("c13.exclr.patterns_built", pats.len() == 1);
    row!("c13.exclr.reloc_gen", "/gen/w", &["gen"], "test_a.py", &pats[..], false);
    row!("c13.exclr.reloc_kept", "/gen/w", &["t"], "test_a.py", &pats[..], true);
    reach!("c13.exclr.end");
    std::mem::forget(pats);
}

/// @harness id=c13_file_name_any9 props=ATTEMPT tier=thorough unwind=40 mem=12 cap=1800
/// (ATTEMPT: not decided within 40 min / 9 GB — symbolic bytes inside a path make every component boundary symbolic.)
/// EVERY 9-byte file name over [a-z_.] below /w/t: indexed iff it is test_*.py or *_test.py (conftest.py has 11 bytes).
#[cfg_attr(kani, kani::proof)]
#[cfg_attr(kani, kani::stub(core::slice::memchr::memchr, stubs::memchr_bytewise))]
#[cfg_attr(kani, kani::stub(core::str::from_utf8, stubs::from_utf8_ascii))]
pub fn c13_file_name_any9() {
    let b: [u8; 9] = any();
    let mut s = String::with_capacity(9);
    let mut i = 0;
    while i < 9 {
        assume((b[i] >= b'a' && b[i] <= b'z') || b[i] == b'_' || b[i] == b'.');
        s.push(b[i] as char);
        i += 1;
    }
    // not a dot-only component ("." / ".." inside a path would be normalised away)
    let want = (&b[..5] == b"test_" && &b[6..] == b".py") || &b[1..] == b"_test.py";
    let no: [Pattern; 0] = [];
    let got = indexed("/w", &["t"], s.as_str(), &no);
    note!("file name {:?}: indexed={} expected={}", s, got, want);
    check!("c13.any9.iff_pattern", got == want);
    reach!("c13.any9.end");
    std::mem::forget(s);
}
