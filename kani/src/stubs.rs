//! Environment stubs (solver build only). Every stub is listed in the evidence of the checks using it.
use std::path::{Path, PathBuf};

/// `Path::exists` — FFI (stat). Default world: nothing exists on disk (contents come from file_cache).
pub fn path_exists_false(_p: &Path) -> bool { false }
pub fn path_is_dir_false(_p: &Path) -> bool { false }
pub fn path_is_file_false(_p: &Path) -> bool { false }
/// `Path::canonicalize` — FFI (realpath). Identity: "the path exists and is already canonical" — the same
/// PathBuf the repository's own fallback (`unwrap_or_else(|_| path.clone())`) produces. Deliberately NOT an `Err`:
/// dropping an `io::Error` sends CBMC into the recursive drop glue of its bit-packed representation
/// (`drop_glue::<io::Error>` unwound 41 levels, 9 GB) — measured on the first F4 harnesses.
pub fn canonicalize_err(p: &Path) -> std::io::Result<PathBuf> {
    Ok(p.to_path_buf())
}
/// `fs::read_to_string` — FFI. `Err`: file contents are served from `file_cache` only.
pub fn read_to_string_err<P: AsRef<Path>>(_p: P) -> std::io::Result<String> {
    Err(std::io::Error::from(std::io::ErrorKind::NotFound))
}
/// `RandomState::new` — getrandom FFI. Constant keys: SipHash of concrete strings constant-folds.
pub fn fixed_random_state() -> std::hash::RandomState {
    unsafe { std::mem::transmute::<(u64, u64), std::hash::RandomState>((0x0123456789abcdef, 0x0fedcba987654321)) }
}

/// Unicode property tables (`core::unicode::unicode_data::*::lookup`): their `skip_search` loops cost
/// ~100 s per concrete line. These stand-ins are exact on ASCII (callers only reach `lookup` for
/// c >= 0x80 anyway) and on the non-ASCII characters of the harness alphabets; any other code point
/// gets a fixed pseudo-classification taken from a mask the *harness* draws symbolically up front
/// (so a stub never calls `any()` itself and native replay consumes the witness in the same order).
pub static mut UNI_MASK: u64 = 0;
fn mask_bit(c: char, salt: u32) -> bool {
    let m = unsafe { UNI_MASK };
    (m >> (((c as u32) ^ salt) & 63)) & 1 == 1
}
pub fn uni_alphabetic(c: char) -> bool {
    match c {
        '\u{e9}' | '\u{4e2d}' => true,        // é, 中 : letters
        '\u{2003}' | '\u{a0}' | '\u{1f600}' | '\u{d7}' => false, // EM SPACE, NBSP, emoji, ×
        _ => mask_bit(c, 0),
    }
}
pub fn uni_numeric(c: char) -> bool {
    match c {
        '\u{e9}' | '\u{4e2d}' | '\u{2003}' | '\u{a0}' | '\u{1f600}' | '\u{d7}' => false,
        '\u{b2}' => true, // ²
        _ => mask_bit(c, 21),
    }
}
pub fn uni_white_space(c: char) -> bool {
    match c {
        '\u{2003}' | '\u{a0}' | '\u{85}' | '\u{3000}' => true,
        '\u{e9}' | '\u{4e2d}' | '\u{1f600}' | '\u{d7}' | '\u{b2}' => false,
        _ => mask_bit(c, 42),
    }
}
/// Draw the mask (one `any::<u64>()`); call first in harnesses that stub the Unicode tables.
pub fn draw_uni_mask() {
    let m: u64 = crate::kx::any();
    unsafe { UNI_MASK = m; }
}

/// `alloc::fmt::format` where message text is not the subject.
pub fn fmt_format_empty(_a: std::fmt::Arguments<'_>) -> String { String::new() }

/// Runtime SIMD feature detection reaches inline asm; "no features" selects the portable paths.
#[cfg(target_arch = "x86_64")]
pub fn cpuid_none(_leaf: u32, _sub: u32) -> core::arch::x86_64::CpuidResult {
    core::arch::x86_64::CpuidResult { eax: 0, ebx: 0, ecx: 0, edx: 0 }
}

/// `core::slice::memchr::memchr` splits the haystack at `ptr.align_offset(8)` — the heap address is unknown
/// to CBMC, so the split point is symbolic and the prefix scan unwinds to the bound for every `str::lines()`
/// / `split('\n')` call even on concrete text. Semantically identical byte-wise scan:
pub fn memchr_bytewise(x: u8, text: &[u8]) -> Option<usize> {
    let mut i = 0;
    while i < text.len() { if text[i] == x { return Some(i); } i += 1; }
    None
}
pub fn memrchr_bytewise(x: u8, text: &[u8]) -> Option<usize> {
    let mut i = text.len();
    while i > 0 { i -= 1; if text[i] == x { return Some(i); } }
    None
}

/// `core::str::from_utf8` for harnesses whose strings are ASCII by construction (C13 path components): the real
/// validator's word-at-a-time fast path depends on the pointer's alignment, which CBMC does not know, so both paths
/// are explored at every call (a concrete 12-row harness did not finish in 10 min). ASCII is ASSUMED here — a
/// non-ASCII byte cuts the path, and the harness's reachability witness guards against the assumption being vacuous.
pub fn from_utf8_ascii(v: &[u8]) -> Result<&str, core::str::Utf8Error> {
    let mut i = 0;
    while i < v.len() {
        crate::kx::assume(v[i] < 128);
        i += 1;
    }
    Ok(unsafe { core::str::from_utf8_unchecked(v) })
}
