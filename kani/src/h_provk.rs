//! Provider kernels (C18 offered-set algebra and ordering, C15 line / range helpers).
//!
//! `providers/*.rs` cannot be mounted (tower-lsp / tokio types), but the functions below are self-contained: they only
//! mention `FixtureDefinition`, `FixtureScope` and two plain lsp structs. `tools/extract.py` copies their TEXT from
//! /repo's current working tree into `gen/provk.rs` at every run (nothing is rewritten); the text is included here so
//! that the harnesses live in the same module and can build the private `CompletionOpts`.
use crate::fixtures::types::FixtureScope;
use crate::fixtures::{CompletionContext, FixtureDefinition};
use crate::kx::{any, assume};
use crate::stubs;
use std::path::{Path, PathBuf};

include!("gen/provk.rs");

fn scope_of(k: u8) -> FixtureScope {
    match k { 0 => FixtureScope::Function, 1 => FixtureScope::Class, 2 => FixtureScope::Module, 3 => FixtureScope::Package, _ => FixtureScope::Session }
}
/// independent rank (property text: function < class < module < package < session)
fn rank(s: FixtureScope) -> u8 {
    match s { FixtureScope::Function => 0, FixtureScope::Class => 1, FixtureScope::Module => 2, FixtureScope::Package => 3, FixtureScope::Session => 4 }
}
/// a one-letter name drawn from {a, b, c}: concrete length, symbolic content
fn name1() -> (u8, String) {
    let b: u8 = any();
    assume(b == b'a' || b == b'b' || b == b'c');
    let mut s = String::with_capacity(1);
    s.push(b as char);
    (b, s)
}
fn fx(name: String, file: &str, scope: FixtureScope, plugin: bool, third: bool) -> FixtureDefinition {
    FixtureDefinition {
        name,
        file_path: PathBuf::from(file),
        line: 3,
        end_line: 4,
        start_char: 4,
        end_char: 5,
        docstring: None,
        return_type: None,
        is_third_party: third,
        is_plugin: plugin,
        dependencies: Vec::new(),
        scope,
        yield_line: None,
        autouse: false,
    }
}

/// @harness id=c18f_excluded_algebra props=C18 tier=quick unwind=6 mem=6 cap=900
/// is_fixture_excluded(candidate, declared, opts) for EVERY candidate name in {a,b,c} x scope (5) x origin flags,
/// every declared-parameter list of two names over {a,b,c} or no list, every edited-fixture name in {a,b,c} or none,
/// every edited-fixture scope or none (test function): excluded <=> the candidate is the fixture being edited, or is
/// already declared, or (inside a fixture) has a narrower scope than the fixture being edited. (self / cls are outside:
/// the property text says nothing about them.)
#[cfg_attr(kani, kani::proof)]
#[cfg_attr(kani, kani::stub(core::slice::memchr::memchr, stubs::memchr_bytewise))]
pub fn c18f_excluded_algebra() {
    let (nb, name) = name1();
    let sc: u8 = any(); assume(sc < 5);
    let plugin: bool = any();
    let third: bool = any();
    let cand = fx(name, "/a/conftest.py", scope_of(sc), plugin, third);

    let has_decl: bool = any();
    let (d0, s0) = name1();
    let (d1, s1) = name1();
    let mut decl: Vec<String> = Vec::with_capacity(2);
    decl.push(s0);
    decl.push(s1);

    let has_cur: bool = any();
    let (cb, cur) = name1();
    let has_scope: bool = any();
    let es: u8 = any(); assume(es < 5);
    let opts = CompletionOpts {
        fixture_scope: if has_scope { Some(scope_of(es)) } else { None },
        current_fixture_name: if has_cur { Some(cur.as_str()) } else { None },
        insert_prefix: "",
    };
    let got = is_fixture_excluded(&cand, if has_decl { Some(&decl[..]) } else { None }, &opts);
    let want = (has_cur && cb == nb) || (has_decl && (d0 == nb || d1 == nb)) || (has_scope && sc < es);
    note!("candidate {:?} scope {} declared {:?} editing {:?} scope {:?}: excluded={} expected={}",
        nb as char, sc, if has_decl { Some([d0 as char, d1 as char]) } else { None }, if has_cur { Some(cb as char) } else { None },
        if has_scope { Some(es) } else { None }, got, want);
    check!("c18f.excluded.eq_spec", got == want);
    // the origin of a candidate never decides whether it is offered
    reach!("c18f.excluded.end");
    std::mem::forget(cand); std::mem::forget(decl); std::mem::forget(cur);
}

/// origin class of a candidate as the property text orders them: 0 same file, 1 conftest / project, 2 plugin,
/// 3 third-party. A definition flagged both plugin and third-party lives in site-packages: third-party.
fn origin_class(same_file: bool, plugin: bool, third: bool) -> u8 {
    if same_file { 0 } else if third { 3 } else if plugin { 2 } else { 1 }
}

/// @harness id=c18f_sort_priority props=C18 tier=quick unwind=24 mem=6 cap=900
/// fixture_sort_priority for two candidates x (defined in the requesting file or in a conftest — both arms) and y
/// (defined elsewhere), EVERY combination of plugin / third-party flags and scopes: the priority is a function of the
/// origin class alone and strictly monotone in it (same file < conftest / project < plugin < third-party), and is a
/// single digit (so that the textual key of c18f_sort_text orders by it).
#[cfg_attr(kani, kani::proof)]
#[cfg_attr(kani, kani::stub(core::slice::memchr::memchr, stubs::memchr_bytewise))]
pub fn c18f_sort_priority() {
    let cur = Path::new("/a/t_u.py");
    let (xp, xt, yp, yt): (bool, bool, bool, bool) = (any(), any(), any(), any());
    let xs: u8 = any(); assume(xs < 5);
    let ys: u8 = any(); assume(ys < 5);
    let mut n = String::with_capacity(1); n.push('a');
    let mut m = String::with_capacity(1); m.push('b');
    let mut k = String::with_capacity(1); k.push('c');
    let x_same = fx(n, "/a/t_u.py", scope_of(xs), xp, xt);
    let x_other = fx(m, "/a/conftest.py", scope_of(xs), xp, xt);
    let y = fx(k, "/p/pp.py", scope_of(ys), yp, yt);
    let p_same = fixture_sort_priority(&x_same, cur);
    let p_other = fixture_sort_priority(&x_other, cur);
    let py = fixture_sort_priority(&y, cur);
    let c_other = origin_class(false, xp, xt);
    let cy = origin_class(false, yp, yt);
    note!("x flags plugin={} third={}: same-file priority {}, elsewhere {}; y flags plugin={} third={}: {}", xp, xt, p_same, p_other, yp, yt, py);
    check!("c18f.sort.same_file_first", p_same < py && p_same < p_other);
    // A definition flagged BOTH plugin and third-party is not ranked by the property text: it must not come before the
    // conftest class, nothing more is demanded of it. Everything else is ranked strictly by its origin class.
    let x_both = xp && xt;
    let y_both = yp && yt;
    if !x_both && !y_both {
        check!("c18f.sort.class_order", (c_other < cy) == (p_other < py) && (c_other == cy) == (p_other == py));
    }
    if !yp && !yt && x_both { check!("c18f.sort.both_flags_after_conftest", p_other > py); }
    check!("c18f.sort.single_digit", p_same <= 9 && p_other <= 9 && py <= 9);
    reach!("c18f.sort.end");
    std::mem::forget(x_same); std::mem::forget(x_other); std::mem::forget(y);
}

/// @harness id=c18f_sort_text props=ATTEMPT tier=thorough unwind=24 mem=6 cap=900
/// (ATTEMPT: `format!` under CBMC did not finish in 10 min — type-erased formatter calls; runs natively.)
/// make_sort_text, executed concretely for the priorities 0..3: the key is "<digit>_<name>", hence a candidate of a
/// nearer origin class sorts before one of a farther class whatever the names ("0_b" < "1_a" < "2_a" < "3_a"), and
/// inside a class by name.
#[cfg_attr(kani, kani::proof)]
#[cfg_attr(kani, kani::stub(core::slice::memchr::memchr, stubs::memchr_bytewise))]
pub fn c18f_sort_text() {
    let k0 = make_sort_text(0, "b");
    let k1 = make_sort_text(1, "a");
    let k1b = make_sort_text(1, "b");
    let k2 = make_sort_text(2, "a");
    let k3 = make_sort_text(3, "a");
    check!("c18f.sorttext.shape", k0.as_bytes() == b"0_b" && k1.as_bytes() == b"1_a" && k2.as_bytes() == b"2_a" && k3.as_bytes() == b"3_a");
    check!("c18f.sorttext.class_before_name", k0.as_bytes() < k1.as_bytes() && k1b.as_bytes() < k2.as_bytes() && k2.as_bytes() < k3.as_bytes());
    check!("c18f.sorttext.name_inside_class", k1.as_bytes() < k1b.as_bytes());
    reach!("c18f.sorttext.end");
    std::mem::forget(k0); std::mem::forget(k1); std::mem::forget(k1b); std::mem::forget(k2); std::mem::forget(k3);
}

/// @harness id=c18f_filter_one props=ATTEMPT tier=thorough unwind=8 mem=10 cap=1200
/// (ATTEMPT: exceeded 10 GB in 150 s — candidates dropped / moved under a symbolic guard.)
/// filter_and_enrich_fixtures on a one-element list [x] (x: name over {a,b,c}, symbolic scope) with every declared
/// name over {a,b,c} or none / edited fixture over {a,b,c} or none / edited scope or none: x comes back — once, as
/// itself — exactly when the specification offers it. (A two-element list did not finish: the result vector grows
/// under a symbolic guard and every later length is symbolic. `format!` is stubbed in the solver build — the detail
/// and sort-key TEXT is not the subject here; the sort priority is c18f_sort_priority's.)
#[cfg_attr(kani, kani::proof)]
#[cfg_attr(kani, kani::stub(core::slice::memchr::memchr, stubs::memchr_bytewise))]
#[cfg_attr(kani, kani::stub(alloc::fmt::format, stubs::fmt_format_empty))]
pub fn c18f_filter_one() {
    let cur_file = Path::new("/u");
    let sx: u8 = any(); assume(sx < 5);
    let (xb, xn) = name1();
    let mut v: Vec<FixtureDefinition> = Vec::with_capacity(1);
    v.push(fx(xn, "/c", scope_of(sx), false, false));
    let has_decl: bool = any();
    let (d0, s0) = name1();
    let mut decl: Vec<String> = Vec::with_capacity(1);
    decl.push(s0);
    let has_cur: bool = any();
    let (cb, cur) = name1();
    let has_scope: bool = any();
    let es: u8 = any(); assume(es < 5);
    let opts = CompletionOpts {
        fixture_scope: if has_scope { Some(scope_of(es)) } else { None },
        current_fixture_name: if has_cur { Some(cur.as_str()) } else { None },
        insert_prefix: "",
    };
    let out = filter_and_enrich_fixtures(v, cur_file, if has_decl { Some(&decl[..]) } else { None }, &opts);
    let offered = !((has_cur && cb == xb) || (has_decl && d0 == xb) || (has_scope && sx < es));
    note!("candidate {:?} scope {}; declared {:?} editing {:?} scope {:?} -> offered {:?} (expected {})", xb as char, sx,
        if has_decl { Some(d0 as char) } else { None }, if has_cur { Some(cb as char) } else { None }, if has_scope { Some(es) } else { None },
        out.iter().map(|e| e.fixture.name.clone()).collect::<Vec<_>>(), offered);
    check!("c18f.filter.count", out.len() == offered as usize);
    if offered && out.len() == 1 {
        check!("c18f.filter.is_the_candidate", out[0].fixture.name.len() == 1 && out[0].fixture.name.as_bytes()[0] == xb && out[0].fixture.scope == scope_of(sx));
    }
    reach!("c18f.filter.end");
    std::mem::forget(out); std::mem::forget(decl); std::mem::forget(cur);
}

/// @harness id=c18f_filter_concrete props=C18 tier=quick unwind=8 mem=8 cap=900
/// filter_and_enrich_fixtures, executed concretely, on [a, b, c, d] while editing the module-scoped fixture d with the
/// parameter a already declared: a (declared) and d (the fixture being edited) and b (function scope, narrower than
/// module) are dropped, c (session scope) is offered — once. Complements c18f_excluded_algebra (which decides the
/// predicate for all inputs) by running the list pipeline that applies it.
#[cfg_attr(kani, kani::proof)]
#[cfg_attr(kani, kani::stub(core::slice::memchr::memchr, stubs::memchr_bytewise))]
#[cfg_attr(kani, kani::stub(alloc::fmt::format, stubs::fmt_format_empty))]
pub fn c18f_filter_concrete() {
    let one = |c: char| { let mut s = String::with_capacity(1); s.push(c); s };
    let mut v: Vec<FixtureDefinition> = Vec::with_capacity(4);
    v.push(fx(one('a'), "/c", FixtureScope::Session, false, false));
    v.push(fx(one('b'), "/c", FixtureScope::Function, false, false));
    v.push(fx(one('c'), "/c", FixtureScope::Session, false, false));
    v.push(fx(one('d'), "/u", FixtureScope::Module, false, false));
    let mut decl: Vec<String> = Vec::with_capacity(1);
    decl.push(one('a'));
    let opts = CompletionOpts { fixture_scope: Some(FixtureScope::Module), current_fixture_name: Some("d"), insert_prefix: "" };
    let out = filter_and_enrich_fixtures(v, Path::new("/u"), Some(&decl[..]), &opts);
    note!("offered {:?}", out.iter().map(|e| e.fixture.name.clone()).collect::<Vec<_>>());
    check!("c18f.filterc.exactly_c", out.len() == 1 && out[0].fixture.name.as_bytes() == b"c");
    reach!("c18f.filterc.end");
    std::mem::forget(out); std::mem::forget(decl);
}

/// @harness id=k_line_conv props=C15 tier=quick unwind=4 mem=4 cap=300
/// providers' line / range helpers for EVERY line and column value: internal (1-based) <-> protocol (0-based) line
/// conversion is line-1 / line+1 (0 clamps to 0), the two are inverse on 1..=u32::MAX, and create_range /
/// create_point_range put each argument into its own field (so start <= end is preserved from the arguments).
/// Outside: lsp_line_to_internal(u32::MAX) overflows in the dev profile only (release wraps; recorded, not failed).
#[cfg_attr(kani, kani::proof)]
pub fn k_line_conv() {
    let l: usize = any();
    assume(l <= u32::MAX as usize);
    let n = PK::internal_line_to_lsp(l);
    check!("k_line_conv.minus_one", if l == 0 { n == 0 } else { n as usize == l - 1 });
    let m: u32 = any();
    assume(m < u32::MAX);
    let back = PK::lsp_line_to_internal(m);
    check!("k_line_conv.plus_one", back == m as usize + 1);
    check!("k_line_conv.inverse", PK::internal_line_to_lsp(back) == m);
    let (a, b, c, d): (u32, u32, u32, u32) = (any(), any(), any(), any());
    let r = PK::create_range(a, b, c, d);
    check!("k_line_conv.range_fields", r.start.line == a && r.start.character == b && r.end.line == c && r.end.character == d);
    let p = PK::create_point_range(a, b);
    check!("k_line_conv.point", p.start == p.end && p.start.line == a && p.start.character == b);
    reach!("k_line_conv.end");
}
