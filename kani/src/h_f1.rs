//! F1 — resolver cascade over worlds (C01, C05, C08, …). One proof per arm: the layout skeleton
//! (which files, analysis order, which file defines the name) is concrete, attributes are symbolic.
use crate::fixtures::{FixtureDatabase, FixtureDefinition, FixtureScope};
use crate::kx::{any, assume};
use crate::spec;
use crate::world::*;
use std::path::Path;

/// symbolic line for a definition: 3..=999
fn any_line() -> usize { let l: usize = any(); assume(l >= 3 && l < 1000); l }

/// all definition lines pairwise distinct (so `line` identifies a definition) and the layout is printable
fn assume_distinct_lines(w: &World) {
    assume(w.layout_ok());
    for i in 0..w.defs.len() { for j in 0..i { assume(w.defs[i].line != w.defs[j].line); } }
}

fn first_registered(w: &World, name: &str, excluding: Option<usize>) -> Option<usize> {
    w.registration().into_iter().find(|&i| w.defs[i].name == name && Some(i) != excluding)
}

/// C01 cascade arm: `order` = files analysed, in registration order; `def_files` = which of them define `f`
/// (a file listed twice defines it twice). Symbolic: every definition line, and — when M defines f and a
/// conftest C1/C0 is present — whether that conftest imports it and by which statement form.
pub fn cascade(order: &[u8], def_files: &[u8]) {
    let mut w = World::new(order);
    for &f in def_files { let l = any_line(); w.def(f, "f", l); }
    let m_has = def_files.contains(&M);
    let i1: bool = any(); let k1: u8 = any(); let i0: bool = any(); let k0: u8 = any();
    assume(k1 < 3 && k0 < 3);
    w.imp_c1 = Imp { on: i1 && m_has && w.c1_present, kind: k1 };
    w.imp_c0 = Imp { on: i0 && m_has && w.c0_present, kind: k0 };
    assume_distinct_lines(&w);
    note!("order={:?} defs={:?} imp_c1={}({}) imp_c0={}({})", order,
          w.defs.iter().map(|d| (d.file, d.line)).collect::<Vec<_>>(), w.imp_c1.on, k1, w.imp_c0.on, k0);
    let db = build(&w, DEFS_ONLY);
    let want = spec::resolve(&w, U, "f", None);
    let got = db.find_closest_definition(Path::new(path(U)), "f");
    let got_line = got.as_ref().map(|d| d.line);
    let want_line = want.map(|i| w.defs[i].line);
    note!("want={:?} got={:?}", want_line, got.as_ref().map(|d| (d.file_path.clone(), d.line)));
    let via_import = want.map_or(false, |i| w.defs[i].file == M);
    if crate::kf::C01_IMPORTED_FIRST_REGISTERED && via_import && first_registered(&w, "f", None) != want {
        check!("KF:c01.cascade.imported", got_line == want_line);
    } else {
        check!("c01.cascade.eq", got_line == want_line);
    }
    reach!("c01.cascade.end");
    std::mem::forget(got); std::mem::forget(db); std::mem::forget(w);
}

macro_rules! cascade_arm {
    ($id:ident, $order:expr, $defs:expr) => {
        #[cfg_attr(kani, kani::proof)]
        #[cfg_attr(kani, kani::stub(std::path::Path::exists, crate::stubs::path_exists_false))]
        #[cfg_attr(kani, kani::stub(crate::fixtures::FixtureDatabase::is_fixture_imported_in_file, crate::world::stub_is_imported))]
        pub fn $id() { cascade(&$order, &$defs) }
    };
}

/// @harness id=c01_same_file_twice props=C01,C08 unwind=17 mem=6 cap=600
/// U defines f twice (symbolic lines): the later line wins.
cascade_arm!(c01_same_file_twice, [U], [U, U]);
/// @harness id=c01_root_near_same props=C01,C08 unwind=17 mem=6 cap=600
/// C0, C1, U all define f (registered root first): same file wins.
cascade_arm!(c01_root_near_same, [C0, C1, U], [C0, C1, U]);
/// @harness id=c01_root_then_near props=C01,C08 unwind=17 mem=6 cap=600
/// C0 registered before C1, both define f, U does not: nearest conftest wins.
cascade_arm!(c01_root_then_near, [C0, C1, U], [C0, C1]);
