//! F1 — resolver cascade over worlds (C01, C05, C08, …). One proof per arm: the layout skeleton
//! (which files, analysis order, which file defines the name) is concrete, attributes are symbolic.
use crate::fixtures::{FixtureDatabase, FixtureDefinition, FixtureScope};
use crate::kx::{any, assume};
use crate::spec;
use crate::world::*;
use std::path::Path;

/// symbolic line for a definition: 4..=999 (line 1 import pytest, line 2 import slot, decorator on line-1)
fn any_line() -> usize { let l: usize = any(); assume(l >= 4 && l < 1000); l }

/// all definition lines pairwise distinct (so `line` identifies a definition) and the layout is printable
fn assume_distinct_lines(w: &World) {
    assume(w.layout_ok());
    for i in 0..w.defs.len() { for j in 0..i { assume(w.defs[i].line != w.defs[j].line); } }
}

fn first_registered(w: &World, name: &str, excluding: Option<usize>) -> Option<usize> {
    w.registration().into_iter().find(|&i| w.defs[i].name == name && Some(i) != excluding)
}

/// C01 cascade arm: `order` = files analysed, in registration order; `def_files` = which of them define `f`
/// (a file listed twice defines it twice); the LAST file of `order` is the requesting one. Symbolic: every
/// definition line; when M defines f and a conftest C1/C0 is present, whether that conftest imports it and by
/// which statement form; when V defines f, whether V is itself an entry-point plugin (is_plugin AND is_third_party).
pub fn cascade(order: &[u8], def_files: &[u8]) {
    let mut w = World::new(order);
    for &f in def_files { let l = any_line(); w.def(f, "f", l); }
    let m_has = def_files.contains(&M);
    let i1: bool = any(); let k1: u8 = any(); let i0: bool = any(); let k0: u8 = any();
    assume(k1 < 3 && k0 < 3);
    w.imp_c1 = Imp { on: i1 && m_has && w.c1_present, kind: k1 };
    w.imp_c0 = Imp { on: i0 && m_has && w.c0_present, kind: k0 };
    let vp: bool = any();
    w.v_is_plugin = vp && def_files.contains(&V);
    assume_distinct_lines(&w);
    // the requesting file is the last one analysed
    let from = order[order.len() - 1];
    note!("order={:?} defs={:?} imp_c1={}({}) imp_c0={}({}) v_is_plugin={} from={}", order,
          w.defs.iter().map(|d| (d.file, d.line)).collect::<Vec<_>>(), w.imp_c1.on, k1, w.imp_c0.on, k0, w.v_is_plugin, path(from));
    let db = build(&w, DEFS_ONLY);
    let want = spec::resolve(&w, from, "f", None);
    let got = db.find_closest_definition(Path::new(path(from)), "f");
    let got_line = got.as_ref().map(|d| d.line);
    let want_line = want.map(|i| w.defs[i].line);
    note!("want={:?} got={:?}", want_line, got.as_ref().map(|d| (d.file_path.clone(), d.line)));
    let via_import = want.map_or(false, |i| w.defs[i].file == M);
    if crate::kf::C01_IMPORTED_FIRST_REGISTERED && via_import && first_registered(&w, "f", None) != want {
        check!("KF:c01.cascade.imported", got_line == want_line);
    } else {
        check!("c01.cascade.eq", got_line == want_line);
    }
    reach!("c01.cascade.end");
    std::mem::forget(got); std::mem::forget(db); std::mem::forget(w);
}

macro_rules! cascade_arm {
    ($id:ident, $order:expr, $defs:expr) => {
        #[cfg_attr(kani, kani::proof)]
        #[cfg_attr(kani, kani::stub(std::path::Path::exists, crate::stubs::path_exists_false))]
        #[cfg_attr(kani, kani::stub(crate::fixtures::FixtureDatabase::is_fixture_imported_in_file, crate::world::stub_is_imported))]
        pub fn $id() { cascade(&$order, &$defs) }
    };
}

/// @harness id=c01_same_file_twice props=C01,C08 tier=quick unwind=17 mem=6 cap=600
/// U defines f twice (symbolic lines): the later line wins.
cascade_arm!(c01_same_file_twice, [U], [U, U]);
/// @harness id=c01_root_near_same props=C01,C08 tier=quick unwind=17 mem=6 cap=600
/// C0, C1, U all define f (registered root first): same file wins.
cascade_arm!(c01_root_near_same, [C0, C1, U], [C0, C1, U]);
/// @harness id=c01_root_then_near props=C01,C08 tier=quick unwind=17 mem=6 cap=600
/// C0 registered before C1, both define f, U does not: nearest conftest wins.
cascade_arm!(c01_root_then_near, [C0, C1, U], [C0, C1]);
/// @harness id=c01_near_then_root props=C01,C08 tier=quick unwind=17 mem=6 cap=600
/// C1 registered before C0, both define f: nearest conftest wins regardless of registration order.
cascade_arm!(c01_near_then_root, [C1, C0, U], [C1, C0]);
/// @harness id=c01_sibling_and_root props=C01,C08 tier=quick unwind=17 mem=6 cap=600
/// sibling conftest S registered first, root C0 second: S is invisible from /a, C0 wins.
cascade_arm!(c01_sibling_and_root, [S, C0, U], [S, C0]);
/// @harness id=c01_sibling_only props=C01 tier=quick unwind=17 mem=6 cap=600
/// only the sibling conftest defines f: nothing is visible.
cascade_arm!(c01_sibling_only, [S, U], [S]);
/// @harness id=c01_other_module_and_unimported props=C01 tier=quick unwind=17 mem=6 cap=600
/// another test module T2 and an un-imported module M define f (no conftest on the path): nothing visible.
cascade_arm!(c01_other_module_and_unimported, [T2, M, U], [T2, M]);
/// @harness id=c01_import_vs_sibling props=C01,C08,C12 tier=quick unwind=17 mem=6 cap=600
/// S registered first, M second, C1 present and (symbolically) importing M: imported => M's, else none.
cascade_arm!(c01_import_vs_sibling, [S, M, C1, U], [S, M]);
/// @harness id=c01_import_m_first props=C01,C08 tier=quick unwind=17 mem=6 cap=600
/// M registered before S; C1 (symbolically) imports M.
cascade_arm!(c01_import_m_first, [M, S, C1, U], [M, S]);
/// @harness id=c01_plugin_over_third_party props=C01,C08 tier=quick unwind=21 mem=6 cap=600
/// third-party V registered before plugin P: plugin wins.
cascade_arm!(c01_plugin_over_third_party, [V, P, U], [V, P]);
/// @harness id=c01_root_over_third_party props=C01 tier=quick unwind=21 mem=6 cap=600
/// V registered before the root conftest: conftest wins.
cascade_arm!(c01_root_over_third_party, [V, C0, U], [V, C0]);
/// @harness id=c01_plugin_tp_sibling props=C01 tier=quick unwind=21 mem=6 cap=900
/// P, V and the sibling S define f: plugin wins, S never.
cascade_arm!(c01_plugin_tp_sibling, [S, V, P, U], [S, V, P]);
/// @harness id=c01_root_imports props=C01 tier=quick unwind=17 mem=6 cap=600
/// only M defines f; the root conftest (symbolically) imports it via a.m.
cascade_arm!(c01_root_imports, [M, C0, U], [M]);
/// @harness id=c01_near_import_over_root_def props=C01,C08 tier=quick unwind=17 mem=6 cap=900
/// C0 defines f (registered first), M defines f, C1 (symbolically) imports M: the nearer conftest's import beats the root's own definition.
cascade_arm!(c01_near_import_over_root_def, [C0, M, C1, U], [C0, M]);
/// @harness id=c01_same_over_near props=C01 tier=quick unwind=17 mem=6 cap=600
/// U and C1 define f, C1 registered first.
cascade_arm!(c01_same_over_near, [C1, U], [C1, U]);

/// @harness id=c01_three_levels_root_leaf_mid props=C01,C08 tier=quick unwind=20 mem=8 cap=900
/// three conftests on one ancestor chain (C0, C1, C2) all define f, registered root, leaf, mid; requested
/// from the leaf directory: the leaf conftest wins.
cascade_arm!(c01_three_levels_root_leaf_mid, [C0, C2, C1, U3], [C0, C2, C1]);
/// @harness id=c01_three_levels_mid_root_leaf props=C01,C08 tier=quick unwind=20 mem=8 cap=900
/// same three conftests registered mid, root, leaf.
cascade_arm!(c01_three_levels_mid_root_leaf, [C1, C0, C2, U3], [C1, C0, C2]);
/// @harness id=c01_three_levels_leaf_root_mid props=C01,C08 tier=thorough unwind=20 mem=8 cap=900
/// registered leaf, root, mid.
cascade_arm!(c01_three_levels_leaf_root_mid, [C2, C0, C1, U3], [C2, C0, C1]);
/// @harness id=c01_three_levels_root_mid_leaf props=C01,C08 tier=thorough unwind=20 mem=8 cap=900
/// registered root, mid, leaf (the natural top-down order).
cascade_arm!(c01_three_levels_root_mid_leaf, [C0, C1, C2, U3], [C0, C1, C2]);
/// @harness id=c01_three_levels_mid_leaf_root props=C01,C08 tier=thorough unwind=20 mem=8 cap=900
/// registered mid, leaf, root.
cascade_arm!(c01_three_levels_mid_leaf_root, [C1, C2, C0, U3], [C1, C2, C0]);
/// @harness id=c01_three_levels_leaf_mid_root props=C01,C08 tier=thorough unwind=20 mem=8 cap=900
/// registered leaf, mid, root.
cascade_arm!(c01_three_levels_leaf_mid_root, [C2, C1, C0, U3], [C2, C1, C0]);
/// @harness id=c01_two_of_three_levels props=C01 tier=quick unwind=20 mem=8 cap=900
/// only the root and the mid conftest define f (leaf conftest exists but does not), requested from the leaf directory.
cascade_arm!(c01_two_of_three_levels, [C0, C2, C1, U3], [C0, C1]);

// ---------------------------------------------------------------------------------------------
// C01(b): usage kinds and cursor columns — find_fixture_definition(file, line, col) on generated text.

/// World with every usage kind of `fx1` in U; the provider is C0's definition (line 4).
fn usage_world() -> World {
    let mut w = World::new(&[C0, U]);
    w.def(C0, "fx1", 4);
    let g = w.def(U, "g", 4);
    w.defs[g].deps = vec!["fx1"];
    w.test(U, 8, &["fx1"]);
    w.tests[0].usefix = Some("fx1");
    w.tests[0].indirect = Some("fx1");
    w.pytestmark_u = Some("fx1");
    w.with_text = true;
    w
}
/// One position query per harness (a single concrete `find_fixture_definition` costs ~150 s of symbolic
/// execution, see DESIGN §0): the cursor sits on a concrete column of usage line `line1`; what is symbolic is the
/// RECORDED span (s, e) of the usage on that line — any 0 <= s <= e <= 64 — so the solver decides
/// "cursor inside the recorded span <=> resolves to C0's definition" for every span position relative to the cursor.
pub fn usage_at(line1: usize, tok_start: usize, col: u32) {
    let w = usage_world();
    let db = build(&w, WITH_USAGES);
    let s: usize = any(); let e: usize = any();
    assume(s <= e && e <= 64);
    // overwrite the recorded span of the usage on this line (the analyzer's value is tok_start..tok_start+3; gate `worlds`)
    {
        let mut us = db.usages.get_mut(Path::new(path(U))).unwrap();
        for u in us.iter_mut() { if u.line == line1 { u.start_char = s; u.end_char = e; } }
    }
    note!("find_fixture_definition(U, line0={}, col={}) recorded span {}..{} (analyzer: {}..{}) text line={:?}", line1 - 1, col, s, e, tok_start, tok_start + 3, file_text(&w, U).lines().nth(line1 - 1));
    let got = db.find_fixture_definition(Path::new(path(U)), (line1 - 1) as u32, col);
    let on_token = (col as usize) >= tok_start && (col as usize) < tok_start + 3; // the word under the cursor is the name
    let inside = (col as usize) >= s && (col as usize) < e;
    check!("c01.pos.inside_span_resolves", !(inside && on_token) || got.as_ref().map(|d| d.line) == Some(4));
    check!("c01.pos.outside_span_none", (inside && on_token) || got.is_none());
    reach!("c01.pos.end");
    std::mem::forget(got); std::mem::forget(db); std::mem::forget(w);
}
macro_rules! usage_arm {
    ($id:ident, $line:expr, $s:expr, $dcol:expr) => {
        #[cfg_attr(kani, kani::proof)]
        #[cfg_attr(kani, kani::stub(std::path::Path::exists, crate::stubs::path_exists_false))]
        #[cfg_attr(kani, kani::stub(crate::fixtures::FixtureDatabase::is_fixture_imported_in_file, crate::world::stub_is_imported))]
        #[cfg_attr(kani, kani::stub(core::unicode::unicode_data::alphabetic::lookup, crate::stubs::uni_alphabetic))]
        #[cfg_attr(kani, kani::stub(core::unicode::unicode_data::n::lookup, crate::stubs::uni_numeric))]
        #[cfg_attr(kani, kani::stub(core::slice::memchr::memchr, crate::stubs::memchr_bytewise))]
        pub fn $id() { let s: usize = $s; usage_at($line, s, (s as i64 + $dcol) as u32) }
    };
}
/// @harness id=c01_use_pytestmark props=C01 tier=quick unwind=60 mem=8 cap=900 gates=worlds
/// `pytestmark = pytest.mark.usefixtures("fx1")` (line 2): cursor on the middle character of the name, recorded span symbolic.
usage_arm!(c01_use_pytestmark, 2, PYTESTMARK_COL, 1);
/// @harness id=c01_use_pytestmark_before props=C01 tier=thorough unwind=60 mem=8 cap=900 gates=worlds
/// `pytestmark = pytest.mark.usefixtures("fx1")` (line 2): cursor one column before the name (on the quote / parenthesis), recorded span symbolic.
usage_arm!(c01_use_pytestmark_before, 2, PYTESTMARK_COL, -1);
/// @harness id=c01_use_pytestmark_last props=C01 tier=thorough unwind=60 mem=8 cap=900 gates=worlds
/// `pytestmark = pytest.mark.usefixtures("fx1")` (line 2): cursor on the last character of the name, recorded span symbolic.
usage_arm!(c01_use_pytestmark_last, 2, PYTESTMARK_COL, 2);

/// @harness id=c01_use_fixture_param props=C01 tier=quick unwind=60 mem=8 cap=900 gates=worlds
/// `def g(fx1): return 1` (line 4): fixture parameter: cursor on the middle character of the name, recorded span symbolic.
usage_arm!(c01_use_fixture_param, 4, 6, 1);
/// @harness id=c01_use_fixture_param_before props=C01 tier=thorough unwind=60 mem=8 cap=900 gates=worlds
/// `def g(fx1): return 1` (line 4): fixture parameter: cursor one column before the name (on the quote / parenthesis), recorded span symbolic.
usage_arm!(c01_use_fixture_param_before, 4, 6, -1);
/// @harness id=c01_use_fixture_param_last props=C01 tier=thorough unwind=60 mem=8 cap=900 gates=worlds
/// `def g(fx1): return 1` (line 4): fixture parameter: cursor on the last character of the name, recorded span symbolic.
usage_arm!(c01_use_fixture_param_last, 4, 6, 2);

/// @harness id=c01_use_usefixtures props=C01 tier=quick unwind=60 mem=8 cap=900 gates=worlds
/// `@pytest.mark.usefixtures("fx1")` (line 6): cursor on the middle character of the name, recorded span symbolic.
usage_arm!(c01_use_usefixtures, 6, USEFIX_COL, 1);
/// @harness id=c01_use_usefixtures_before props=C01 tier=thorough unwind=60 mem=8 cap=900 gates=worlds
/// `@pytest.mark.usefixtures("fx1")` (line 6): cursor one column before the name (on the quote / parenthesis), recorded span symbolic.
usage_arm!(c01_use_usefixtures_before, 6, USEFIX_COL, -1);
/// @harness id=c01_use_usefixtures_last props=C01 tier=thorough unwind=60 mem=8 cap=900 gates=worlds
/// `@pytest.mark.usefixtures("fx1")` (line 6): cursor on the last character of the name, recorded span symbolic.
usage_arm!(c01_use_usefixtures_last, 6, USEFIX_COL, 2);

/// @harness id=c01_use_indirect props=C01 tier=quick unwind=60 mem=8 cap=900 gates=worlds
/// `@pytest.mark.parametrize("fx1", [1], indirect=True)` (line 7): cursor on the middle character of the name, recorded span symbolic.
usage_arm!(c01_use_indirect, 7, USEFIX_COL, 1);
/// @harness id=c01_use_indirect_before props=C01 tier=thorough unwind=60 mem=8 cap=900 gates=worlds
/// `@pytest.mark.parametrize("fx1", [1], indirect=True)` (line 7): cursor one column before the name (on the quote / parenthesis), recorded span symbolic.
usage_arm!(c01_use_indirect_before, 7, USEFIX_COL, -1);
/// @harness id=c01_use_indirect_last props=C01 tier=thorough unwind=60 mem=8 cap=900 gates=worlds
/// `@pytest.mark.parametrize("fx1", [1], indirect=True)` (line 7): cursor on the last character of the name, recorded span symbolic.
usage_arm!(c01_use_indirect_last, 7, USEFIX_COL, 2);

/// @harness id=c01_use_test_param props=C01 tier=quick unwind=60 mem=8 cap=900 gates=worlds
/// `def test_x(fx1): pass` (line 8): test parameter: cursor on the middle character of the name, recorded span symbolic.
usage_arm!(c01_use_test_param, 8, 11, 1);
/// @harness id=c01_use_test_param_before props=C01 tier=thorough unwind=60 mem=8 cap=900 gates=worlds
/// `def test_x(fx1): pass` (line 8): test parameter: cursor one column before the name (on the quote / parenthesis), recorded span symbolic.
usage_arm!(c01_use_test_param_before, 8, 11, -1);
/// @harness id=c01_use_test_param_last props=C01 tier=thorough unwind=60 mem=8 cap=900 gates=worlds
/// `def test_x(fx1): pass` (line 8): test parameter: cursor on the last character of the name, recorded span symbolic.
usage_arm!(c01_use_test_param_last, 8, 11, 2);
