//! C18(c) — get_completion_context per cursor line: valid documents through the parser oracle, the incomplete
//! forms produced while typing a signature through the text fallback (the oracle answers Err, as the real parser does).
use crate::fixtures::{CompletionContext, FixtureDatabase, FixtureScope};
use crate::kx::{any, assume};
use crate::oracle::*;
use std::path::{Path, PathBuf};
use std::sync::Arc;

pub const PU: &str = concat!(env!("PLSV_ROOT"), "/a/t_u.py");

fn ctx_at(text: &'static str, line0: u32, col: u32) -> Option<CompletionContext> {
    let db = FixtureDatabase::new();
    db.file_cache.insert(PathBuf::from(PU), Arc::new(text.to_string()));
    let r = db.get_completion_context(Path::new(PU), line0, col);
    note!("get_completion_context(line0={}, col={}) on {:?} -> {:?}", line0, col, text.lines().nth(line0 as usize), r);
    std::mem::forget(db);
    r
}
fn sig(name: &str, line: usize, is_fixture: bool, params: &[&str], scope: Option<FixtureScope>) -> CompletionContext {
    CompletionContext::FunctionSignature { function_name: name.to_string(), function_line: line, is_fixture,
        declared_params: params.iter().map(|s| s.to_string()).collect(), fixture_scope: scope }
}
fn body(name: &str, line: usize, is_fixture: bool, params: &[&str], scope: Option<FixtureScope>) -> CompletionContext {
    CompletionContext::FunctionBody { function_name: name.to_string(), function_line: line, is_fixture,
        declared_params: params.iter().map(|s| s.to_string()).collect(), fixture_scope: scope }
}
macro_rules! cc_arm {
    ($id:ident, $oracle:ident, $body:expr) => {
        #[cfg_attr(kani, kani::proof)]
        #[cfg_attr(kani, kani::stub(rustpython_parser::parse, crate::oracle::$oracle))]
        #[cfg_attr(kani, kani::stub(std::path::Path::canonicalize, crate::stubs::canonicalize_err))]
        #[cfg_attr(kani, kani::stub(std::hash::RandomState::new, crate::stubs::fixed_random_state))]
        #[cfg_attr(kani, kani::stub(std::arch::x86_64::__cpuid_count, crate::stubs::cpuid_none))]
        #[cfg_attr(kani, kani::stub(core::unicode::unicode_data::white_space::lookup, crate::stubs::uni_white_space))]
        #[cfg_attr(kani, kani::stub(core::unicode::unicode_data::alphabetic::lookup, crate::stubs::uni_alphabetic))]
        #[cfg_attr(kani, kani::stub(core::unicode::unicode_data::n::lookup, crate::stubs::uni_numeric))]
        #[cfg_attr(kani, kani::stub(core::slice::memchr::memchr, crate::stubs::memchr_bytewise))]
        pub fn $id() { $body }
    };
}
const MODULE: Option<FixtureScope> = Some(FixtureScope::Module);

/// @harness id=c18_ctx_nowhere props=ATTEMPT tier=thorough unwind=18 mem=12 cap=1800 gates=oracle unwindset=find_inner:3;memchr_seq:400;rec~ParseErrorType:3;rec~LexicalErrorType:3;rec~FStringErrorType:3;rec~drop_glue::<std::io::Error:3;memchr_bytewise:64;sip:48;next_match:40
/// D_COMPLETION: module level (import line), the @pytest.fixture decorator line, a non-test helper's signature
/// and body: no completion context (symbolic selector over the four cursor lines).
cc_arm!(c18_ctx_nowhere, oracle_only_d_completion, {
    stubs_mask();
    let k: u8 = any(); assume(k < 4);
    let r = match k { 0 => ctx_at(T_D_COMPLETION, 0, 3), 1 => ctx_at(T_D_COMPLETION, 2, 10), 2 => ctx_at(T_D_COMPLETION, 8, 11), _ => ctx_at(T_D_COMPLETION, 9, 6) };
    check!("c18.ctx.none_outside_tests_and_fixtures", r.is_none());
    reach!("c18.ctx_nowhere.end");
    std::mem::forget(r);
});
/// @harness id=c18_ctx_fixture props=ATTEMPT tier=thorough unwind=18 mem=12 cap=1800 gates=oracle unwindset=find_inner:3;memchr_seq:400;rec~ParseErrorType:3;rec~LexicalErrorType:3;rec~FStringErrorType:3;rec~drop_glue::<std::io::Error:3;memchr_bytewise:64;sip:48;next_match:40
/// D_COMPLETION: the module-scoped fixture `fx(a,\n b)`: both signature lines => signature (declared a, b; scope
/// module), its two body lines => body.
cc_arm!(c18_ctx_fixture, oracle_only_d_completion, {
    stubs_mask();
    let k: u8 = any(); assume(k < 4);
    let (r, want) = match k {
        0 => (ctx_at(T_D_COMPLETION, 3, 8), sig("fx", 4, true, &["a", "b"], MODULE)),
        1 => (ctx_at(T_D_COMPLETION, 4, 7), sig("fx", 4, true, &["a", "b"], MODULE)),
        2 => (ctx_at(T_D_COMPLETION, 5, 4), body("fx", 4, true, &["a", "b"], MODULE)),
        _ => (ctx_at(T_D_COMPLETION, 6, 4), body("fx", 4, true, &["a", "b"], MODULE)),
    };
    check!("c18.ctx.fixture_signature_and_body", r.as_ref() == Some(&want));
    reach!("c18.ctx_fixture.end");
    std::mem::forget(r); std::mem::forget(want);
});
/// @harness id=c18_ctx_test props=ATTEMPT tier=thorough unwind=18 mem=12 cap=1800 gates=oracle unwindset=find_inner:3;memchr_seq:400;rec~ParseErrorType:3;rec~LexicalErrorType:3;rec~FStringErrorType:3;rec~drop_glue::<std::io::Error:3;memchr_bytewise:64;sip:48;next_match:40
/// D_COMPLETION: `@pytest.mark.usefixtures("fx")` => usefixtures context; `def test_x(fx):  # c` => signature;
/// the body lines `y = 1`, `for i in fx:` (ends in a colon) and `pass` => body.
cc_arm!(c18_ctx_test, oracle_only_d_completion, {
    stubs_mask();
    let k: u8 = any(); assume(k < 5);
    let (r, want) = match k {
        0 => (ctx_at(T_D_COMPLETION, 11, 26), CompletionContext::UsefixturesDecorator),
        1 => (ctx_at(T_D_COMPLETION, 12, 11), sig("test_x", 13, false, &["fx"], None)),
        2 => (ctx_at(T_D_COMPLETION, 13, 8), body("test_x", 13, false, &["fx"], None)),
        3 => (ctx_at(T_D_COMPLETION, 14, 8), body("test_x", 13, false, &["fx"], None)),
        _ => (ctx_at(T_D_COMPLETION, 15, 8), body("test_x", 13, false, &["fx"], None)),
    };
    check!("c18.ctx.test_signature_body_usefixtures", r.as_ref() == Some(&want));
    reach!("c18.ctx_test.end");
    std::mem::forget(r); std::mem::forget(want);
});
/// @harness id=c18_ctx_method props=ATTEMPT tier=thorough unwind=18 mem=12 cap=1800 gates=oracle unwindset=find_inner:3;memchr_seq:400;rec~ParseErrorType:3;rec~LexicalErrorType:3;rec~FStringErrorType:3;rec~drop_glue::<std::io::Error:3;memchr_bytewise:64;sip:48;next_match:40
/// D_COMPLETION: class-nested test method: signature (declared self, fx) and body; the `class TestK:` line: nothing.
cc_arm!(c18_ctx_method, oracle_only_d_completion, {
    stubs_mask();
    let k: u8 = any(); assume(k < 3);
    let (r, want) = match k {
        0 => (ctx_at(T_D_COMPLETION, 17, 20), Some(sig("test_m", 18, false, &["self", "fx"], None))),
        1 => (ctx_at(T_D_COMPLETION, 18, 8), Some(body("test_m", 18, false, &["self", "fx"], None))),
        _ => (ctx_at(T_D_COMPLETION, 16, 6), None),
    };
    check!("c18.ctx.method_signature_body", r == want);
    reach!("c18.ctx_method.end");
    std::mem::forget(r); std::mem::forget(want);
});
/// @harness id=c18_ctx_typing props=ATTEMPT tier=thorough unwind=18 mem=12 cap=1800 gates=oracle unwindset=find_inner:3;memchr_seq:400;rec~ParseErrorType:3;rec~LexicalErrorType:3;rec~FStringErrorType:3;rec~drop_glue::<std::io::Error:3;memchr_bytewise:64;sip:48;next_match:40
/// incomplete documents (the parser fails, text fallback): `def test_x(` => signature of test_x; a fixture being
/// typed `def fy(a,` => signature with declared a; `@pytest.mark.usefixtures(` => usefixtures; `def helper(` => nothing.
cc_arm!(c18_ctx_typing, oracle_only_d_typing_open, {
    stubs_mask();
    // four concrete calls, one after the other (a selector over heap-heavy call sites does not fit, DESIGN §9.2)
    let r0 = ctx_at(T_D_TYPING_OPEN, 1, 11);
    check!("c18.ctx.typing_open_paren", r0 == Some(sig("test_x", 2, false, &[], None)));
    let r1 = ctx_at(T_D_TYPING_COMMA, 2, 9);
    check!("c18.ctx.typing_after_comma", r1 == Some(sig("fy", 3, true, &["a"], Some(FixtureScope::Function))));
    let r2 = ctx_at(T_D_TYPING_USEFIX, 2, 25);
    check!("c18.ctx.typing_usefixtures", r2 == Some(CompletionContext::UsefixturesDecorator));
    let r3 = ctx_at(T_D_TYPING_HELPER, 1, 11);
    check!("c18.ctx.typing_helper_none", r3.is_none());
    reach!("c18.ctx_typing.end");
    std::mem::forget(r0); std::mem::forget(r1); std::mem::forget(r2); std::mem::forget(r3);
});
/// @harness id=c18_ctx_comment_colon props=ATTEMPT tier=thorough unwind=18 mem=12 cap=1800 gates=oracle unwindset=find_inner:3;memchr_seq:400;rec~ParseErrorType:3;rec~LexicalErrorType:3;rec~FStringErrorType:3;rec~drop_glue::<std::io::Error:3;memchr_bytewise:64;sip:48;next_match:40
/// D_COMMENT_COLON: `def test_x(fx):  # c` followed directly by a body line that ends in a colon: that body line
/// must be classified as body.
cc_arm!(c18_ctx_comment_colon, oracle_only_d_comment_colon, {
    stubs_mask();
    let r = ctx_at(T_D_COMMENT_COLON, 1, 8);
    let want = body("test_x", 1, false, &["fx"], None);
    if crate::kf::C18_FIRST_BODY_LINE_SCANNED_FOR_COLON {
        check!("KF:c18.ctx.body_line_after_commented_def", r.as_ref() == Some(&want));
    } else {
        check!("c18.ctx.body_line_after_commented_def", r.as_ref() == Some(&want));
    }
    reach!("c18.ctx_comment_colon.end");
    std::mem::forget(r); std::mem::forget(want);
});
fn stubs_mask() { crate::stubs::draw_uni_mask(); }
