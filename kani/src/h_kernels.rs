//! F2 — string / offset kernels (C11 panic-freedom; C15 position arithmetic).
use crate::fixtures::string_utils as su;
use crate::kx::{any, assume};
use crate::stubs;

/// Any valid UTF-8 string of <= 4 bytes (so: one 2-, 3- or 4-byte character plus neighbours).
fn utf8_le4(buf: &mut [u8; 4]) -> Option<&str> {
    let b: [u8; 4] = any();
    let len: usize = any();
    assume(len <= 4);
    *buf = b;
    std::str::from_utf8(&buf[..len]).ok()
}

/// @harness id=k_word4 props=C11 tier=quick unwind=6 mem=16 cap=900
/// extract_word_at_position(any valid UTF-8 <= 4 bytes, any usize column): no panic; a returned word is
/// a non-empty substring.
#[cfg_attr(kani, kani::proof)]
#[cfg_attr(kani, kani::stub(core::unicode::unicode_data::alphabetic::lookup, stubs::uni_alphabetic))]
#[cfg_attr(kani, kani::stub(core::unicode::unicode_data::n::lookup, stubs::uni_numeric))]
pub fn k_word4() {
    stubs::draw_uni_mask();
    let mut buf = [0u8; 4];
    if let Some(s) = utf8_le4(&mut buf) {
        let c: usize = any();
        note!("extract_word_at_position({:?}, {})", s, c);
        let w = su::extract_word_at_position(s, c);
        if let Some(w) = &w {
            check!("k_word4.nonempty", !w.is_empty());
            check!("k_word4.le_len", w.len() <= s.len());
        }
        reach!("k_word4.end");
        std::mem::forget(w);
    }
}

/// @harness id=k_annot4 props=C11 tier=quick unwind=6 mem=4 cap=600
/// parameter_has_annotation([any valid UTF-8 <= 4 bytes], any line, any end_char): no panic
/// (the inlay-hint handler applies a *recorded* end_char to the *current* text — stale spans).
#[cfg_attr(kani, kani::proof)]
#[cfg_attr(kani, kani::stub(core::unicode::unicode_data::white_space::lookup, stubs::uni_white_space))]
pub fn k_annot4() {
    stubs::draw_uni_mask();
    let mut buf = [0u8; 4];
    if let Some(s) = utf8_le4(&mut buf) {
        let line: usize = any();
        let end_char: usize = any();
        note!("parameter_has_annotation(&[{:?}], {}, {})", s, line, end_char);
        let lines = [s];
        let r = su::parameter_has_annotation(&lines, line, end_char);
        reach!("k_annot4.end");
    }
}
