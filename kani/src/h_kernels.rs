//! F2 — string / offset kernels (C11 panic-freedom; C15 position arithmetic).
use crate::fixtures::string_utils as su;
use crate::kx::{any, assume};
use crate::stubs;

/// Any valid UTF-8 string of <= 4 bytes (so: one 2-, 3- or 4-byte character plus neighbours).
fn utf8_le4(buf: &mut [u8; 4]) -> Option<&str> {
    let b: [u8; 4] = any();
    let len: usize = any();
    assume(len <= 4);
    *buf = b;
    std::str::from_utf8(&buf[..len]).ok()
}

/// Any valid UTF-8 string of <= 3 bytes.
fn utf8_le3(buf: &mut [u8; 3]) -> Option<&str> {
    let b: [u8; 3] = any();
    let len: usize = any();
    assume(len <= 3);
    *buf = b;
    std::str::from_utf8(&buf[..len]).ok()
}

/// @harness id=k_word3 props=C11 tier=thorough unwind=5 mem=24 cap=2400
/// extract_word_at_position(any valid UTF-8 <= 3 bytes, any usize column): no panic; a returned word is
/// a non-empty substring.
#[cfg_attr(kani, kani::proof)]
#[cfg_attr(kani, kani::stub(core::unicode::unicode_data::alphabetic::lookup, stubs::uni_alphabetic))]
#[cfg_attr(kani, kani::stub(core::unicode::unicode_data::n::lookup, stubs::uni_numeric))]
pub fn k_word3() {
    stubs::draw_uni_mask();
    let mut buf = [0u8; 3];
    if let Some(s) = utf8_le3(&mut buf) {
        let c: usize = any();
        note!("extract_word_at_position({:?}, {})", s, c);
        let w = su::extract_word_at_position(s, c);
        if let Some(w) = &w {
            check!("k_word3.nonempty", !w.is_empty());
            check!("k_word3.le_len", w.len() <= s.len());
        }
        reach!("k_word3.end");
        std::mem::forget(w);
    }
}

/// @harness id=k_word4 props=C11 tier=thorough unwind=6 mem=24 cap=2400
/// extract_word_at_position(any valid UTF-8 <= 4 bytes, any usize column): no panic; a returned word is
/// a non-empty substring.
#[cfg_attr(kani, kani::proof)]
#[cfg_attr(kani, kani::stub(core::unicode::unicode_data::alphabetic::lookup, stubs::uni_alphabetic))]
#[cfg_attr(kani, kani::stub(core::unicode::unicode_data::n::lookup, stubs::uni_numeric))]
pub fn k_word4() {
    stubs::draw_uni_mask();
    let mut buf = [0u8; 4];
    if let Some(s) = utf8_le4(&mut buf) {
        let c: usize = any();
        note!("extract_word_at_position({:?}, {})", s, c);
        let w = su::extract_word_at_position(s, c);
        if let Some(w) = &w {
            check!("k_word4.nonempty", !w.is_empty());
            check!("k_word4.le_len", w.len() <= s.len());
        }
        reach!("k_word4.end");
        std::mem::forget(w);
    }
}

/// @harness id=k_annot4 props=C11 tier=quick unwind=6 mem=4 cap=600
/// parameter_has_annotation([any valid UTF-8 <= 4 bytes], any line, any end_char): no panic
/// (the inlay-hint handler applies a *recorded* end_char to the *current* text — stale spans).
#[cfg_attr(kani, kani::proof)]
#[cfg_attr(kani, kani::stub(core::unicode::unicode_data::white_space::lookup, stubs::uni_white_space))]
pub fn k_annot4() {
    stubs::draw_uni_mask();
    let mut buf = [0u8; 4];
    if let Some(s) = utf8_le4(&mut buf) {
        let line: usize = any();
        let end_char: usize = any();
        note!("parameter_has_annotation(&[{:?}], {}, {})", s, line, end_char);
        let lines = [s];
        let r = su::parameter_has_annotation(&lines, line, end_char);
        reach!("k_annot4.end");
    }
}

// ---------------------------------------------------------------------------------------------
// format_docstring on two-line templates: the indentation arithmetic is per line, so two continuation
// lines with different leading "whitespace classes" are the smallest interesting shape.
fn cls(k: u8) -> &'static str {
    match k { 0 => "", 1 => " ", 2 => "\t", 3 => "\u{2003}", 4 => "\u{e9}", 5 => "  ", _ => "\u{a0} " }
}
macro_rules! doc_case {
    ($a:expr, $b:expr) => {{
        let t: String = [ "a\n", cls($a), "b\n", cls($b), "c" ].concat();
        note!("format_docstring({:?})", t);
        let out = su::format_docstring(t);
        std::mem::forget(out);
    }};
}
// A symbolic selector over several format_docstring call sites reached the SAT back end with a formula that did
// not fit into 12 GB (all heap traffic of every call stays under the selector's guard). The templates are therefore
// executed one after the other, concretely: CBMC runs the real function on each and any panic fails the harness.
macro_rules! doc_row {
    ($id:ident, $a:expr) => {
        #[cfg_attr(kani, kani::proof)]
        #[cfg_attr(kani, kani::stub(core::unicode::unicode_data::white_space::lookup, stubs::uni_white_space))]
        #[cfg_attr(kani, kani::stub(core::slice::memchr::memchr, stubs::memchr_bytewise))]
        pub fn $id() {
            doc_case!($a, 0); doc_case!($a, 1); doc_case!($a, 3); doc_case!($a, 4); doc_case!($a, 5);
            reach!("k_docstring.end");
        }
    };
}
/// @harness id=k_docstring_space props=C11 tier=quick unwind=12 mem=8 cap=900
/// format_docstring("a\n" + " " + "b\n" + Y + "c") for Y in {"", " ", EM SPACE (3-byte Unicode whitespace), e-acute
/// (2-byte letter), two spaces}: five concrete templates, executed in sequence. No panic.
doc_row!(k_docstring_space, 1);
/// @harness id=k_docstring_emspace props=C11 tier=quick unwind=12 mem=8 cap=900
/// same with X = EM SPACE (U+2003) as the second line's indentation.
doc_row!(k_docstring_emspace, 3);
/// @harness id=k_docstring_two_spaces props=C11 tier=quick unwind=12 mem=8 cap=900
/// same with X = two spaces.
doc_row!(k_docstring_two_spaces, 5);
/// @harness id=k_docstring_none props=C11 tier=thorough unwind=12 mem=8 cap=900
/// same with X = "" (no indentation).
doc_row!(k_docstring_none, 0);
/// @harness id=k_docstring_tab props=C11 tier=thorough unwind=12 mem=8 cap=900
/// same with X = tab.
doc_row!(k_docstring_tab, 2);
/// @harness id=k_docstring_letter props=C11 tier=thorough unwind=12 mem=8 cap=900
/// same with X = e-acute.
doc_row!(k_docstring_letter, 4);
/// @harness id=k_docstring_nbsp props=C11 tier=thorough unwind=12 mem=8 cap=900
/// same with X = NBSP + space.
doc_row!(k_docstring_nbsp, 6);

// ---------------------------------------------------------------------------------------------
/// sorted line index with index[0] == 0 and <= 4 lines, any offset
fn any_line_index(buf: &mut [usize; 4]) -> usize {
    let n: usize = any();
    assume(n >= 1 && n <= 4);
    // exactly the three gaps that are used: a drawn value that is never read (a[0] of a 4-array) does not appear in
    // CBMC's trace, the native replay then consumes the witness one value off and a genuine counterexample is
    // reported as "did not reproduce" (seen with the seeded change C15-char-position-partition-point-strict)
    let a: [u8; 3] = any();
    buf[0] = 0;
    for i in 1..4 { buf[i] = buf[i - 1] + 1 + (a[i - 1] as usize); }
    n
}
/// @harness id=k_line_index props=C11,C15 tier=quick unwind=6 mem=4 cap=600
/// get_line_from_offset / get_char_position_from_offset on any strictly increasing line index (<= 4 lines,
/// first entry 0) and any offset: no panic; line = number of line starts <= offset; column = offset - start.
#[cfg_attr(kani, kani::proof)]
pub fn k_line_index() {
    let mut buf = [0usize; 4];
    let n = any_line_index(&mut buf);
    let idx = &buf[..n];
    let off: usize = any();
    let db = crate::fixtures::FixtureDatabase::new();
    note!("index={:?} offset={}", idx, off);
    let line = db.get_line_from_offset(off, idx);
    let col = db.get_char_position_from_offset(off, idx);
    let mut want = 0usize;
    for i in 0..n { if idx[i] <= off { want = i + 1; } }
    check!("k_line_index.line", line == want);
    check!("k_line_index.col", col == off - idx[want - 1]);
    reach!("k_line_index.end");
    std::mem::forget(db);
}

// ---------------------------------------------------------------------------------------------
/// @harness id=k_insertion_bytes props=ATTEMPT tier=thorough unwind=24 mem=10 cap=900
/// get_function_param_insertion_info on a one-line file of 5 symbolic ASCII bytes over the alphabet
/// { '(' ')' ':' ' ' 'x' '#' }, function_line in 0..=2: no panic; a returned position lies on the line and points at
/// a ')' that is followed by ':'.
#[cfg_attr(kani, kani::proof)]
#[cfg_attr(kani, kani::stub(std::path::Path::canonicalize, stubs::canonicalize_err))]
#[cfg_attr(kani, kani::stub(core::unicode::unicode_data::white_space::lookup, stubs::uni_white_space))]
#[cfg_attr(kani, kani::stub(core::slice::memchr::memchr, stubs::memchr_bytewise))]
pub fn k_insertion_bytes() {
    stubs::draw_uni_mask();
    let sel: [u8; 5] = any();
    let mut bytes = [0u8; 5];
    for k in 0..5 {
        assume(sel[k] < 6);
        bytes[k] = match sel[k] { 0 => b'(', 1 => b')', 2 => b':', 3 => b' ', 4 => b'x', _ => b'#' };
    }
    // built by pushes, not through String::from_utf8(..).unwrap(): a String moved out of a niche-encoded
    // Result loses its constant length in CBMC (every later scan then unwinds to the bound)
    let mut text = String::with_capacity(8);
    for k in 0..5 { text.push(bytes[k] as char); }
    let fl: usize = any();
    assume(fl <= 2);
    note!("get_function_param_insertion_info(text={:?}, function_line={})", text, fl);
    let db = crate::fixtures::FixtureDatabase::new();
    let p = std::path::PathBuf::from(crate::world::path(crate::world::U));
    db.file_cache.insert(p.clone(), std::sync::Arc::new(text));
    let r = db.get_function_param_insertion_info(&p, fl);
    if let Some(i) = &r {
        check!("k_insertion.line", i.line == 1);
        check!("k_insertion.at_close_paren", i.char_pos + 1 < 5 && bytes[i.char_pos] == b')' && bytes[i.char_pos + 1] == b':');
    }
    reach!("k_insertion_bytes.end");
    std::mem::forget(r); std::mem::forget(db);
}

// ---------------------------------------------------------------------------------------------
// find_function_name_position on `def` line templates (C15): the span must be the name token.
macro_rules! fnp_case {
    ($line:expr, $name:expr, $start:expr) => {{
        note!("find_function_name_position({:?}, 1, {:?}) want start {}", $line, $name, $start);
        let (s, e) = su::find_function_name_position($line, 1, $name);
        (s == $start && e == $start + $name.len())
    }};
}
/// @harness id=k_fn_name_pos props=C15 tier=quick unwind=30 mem=6 cap=900
/// find_function_name_position on def-line templates, executed one after the other (concretely): plain, async,
/// indented (spaces / tab), two spaces after def, a parameter equal to the name, the name occurring inside the
/// letters of `def` / `async`: the span must be the name token.
#[cfg_attr(kani, kani::proof)]
#[cfg_attr(kani, kani::stub(core::slice::memchr::memchr, stubs::memchr_bytewise))]
pub fn k_fn_name_pos() {
    check!("k_fn_name_pos.plain", fnp_case!("def f(f): pass", "f", 4));
    check!("k_fn_name_pos.async", fnp_case!("async def f(f): pass", "f", 10));
    check!("k_fn_name_pos.indented", fnp_case!("    def f(self, f): pass", "f", 8));
    check!("k_fn_name_pos.tab_indented", fnp_case!("\tdef f(f): pass", "f", 5));
    check!("k_fn_name_pos.two_spaces", fnp_case!("def  f(f): pass", "f", 5));
    check!("k_fn_name_pos.name_e", fnp_case!("def e(d): pass", "e", 4));
    check!("k_fn_name_pos.async_a", fnp_case!("async def a(a): pass", "a", 10));
    check!("k_fn_name_pos.name_d", fnp_case!("def d(): pass", "d", 4));
    reach!("k_fn_name_pos.end");
}
/// @harness id=k_fn_name_pos_tab props=C15 tier=quick unwind=30 mem=6 cap=900
/// `def<TAB>f(f): pass` (a tab instead of the space after `def`): the span must still be the name token.
#[cfg_attr(kani, kani::proof)]
#[cfg_attr(kani, kani::stub(core::slice::memchr::memchr, stubs::memchr_bytewise))]
pub fn k_fn_name_pos_tab() {
    let ok = fnp_case!("def\tf(f): pass", "f", 4);
    if crate::kf::C15_DEF_TAB_NAME_POSITION {
        check!("KF:k_fn_name_pos.tab_after_def", ok);
    } else {
        check!("k_fn_name_pos.tab_after_def", ok);
    }
    reach!("k_fn_name_pos_tab.end");
}

// ---------------------------------------------------------------------------------------------
/// Position queries on an index whose spans are STALE: a usage of `f` and a definition of `f` were recorded on line 1
/// for an earlier version with ANY span 0 <= s < e <= 8 (symbolic); file_cache now holds `stale` (what analyze_file
/// leaves behind after an unparsable edit) whose line 1 contains multi-byte characters. The cursor is concrete (a
/// symbolic column cannot be decided, DESIGN §9.2). No panic.
fn stale_query(stale: &'static str, col: u32) {
    use crate::world::*;
    let us: usize = any(); let ue: usize = any();
    assume(us < ue && ue <= 8);
    note!("stale text {:?}; recorded spans f@1:{}..{}; query line=0 col={}", stale, us, ue, col);
    let db = crate::fixtures::FixtureDatabase::new();
    let mut w = World::new(&[C0, U]);
    w.def(C0, "f", 4);
    w.def(U, "f", 1);
    let mut v = Vec::with_capacity(2);
    v.push(mk_def(&w.defs[0]));
    let mut own = mk_def(&w.defs[1]);
    own.start_char = us; own.end_char = ue;
    v.push(own);
    db.definitions.insert("f".to_string(), v);
    let p = std::path::PathBuf::from(path(U));
    db.file_cache.insert(p.clone(), std::sync::Arc::new(stale.to_string()));
    let mut uv = Vec::with_capacity(1);
    uv.push(mk_use(U, "f", 1, us, ue));
    db.usages.insert(p.clone(), uv);
    let a = db.find_fixture_definition(&p, 0, col);
    let b = db.find_fixture_at_position(&p, 0, col);
    let c = db.find_fixture_or_definition_at_position(&p, 0, col);
    reach!("k_stale.end");
    std::mem::forget(a); std::mem::forget(b); std::mem::forget(c); std::mem::forget(db); std::mem::forget(w);
}
macro_rules! stale_arm {
    ($id:ident, $text:expr, $col:expr) => {
        #[cfg_attr(kani, kani::proof)]
        #[cfg_attr(kani, kani::stub(std::path::Path::exists, stubs::path_exists_false))]
        #[cfg_attr(kani, kani::stub(crate::fixtures::FixtureDatabase::is_fixture_imported_in_file, crate::world::stub_is_imported))]
        #[cfg_attr(kani, kani::stub(core::unicode::unicode_data::alphabetic::lookup, stubs::uni_alphabetic))]
        #[cfg_attr(kani, kani::stub(core::unicode::unicode_data::n::lookup, stubs::uni_numeric))]
        #[cfg_attr(kani, kani::stub(core::slice::memchr::memchr, stubs::memchr_bytewise))]
        pub fn $id() { stubs::draw_uni_mask(); stale_query($text, $col) }
    };
}
/// @harness id=k_stale_spans_word props=ATTEMPT tier=thorough unwind=20 mem=8 cap=900
/// stale line `f\u{e9}\u{20ac}(x` (a word with a 2-byte and a 3-byte character), cursor on its first character; recorded spans symbolic.
stale_arm!(k_stale_spans_word, "f\u{e9}\u{20ac}(x\n", 0);
/// @harness id=k_stale_spans_after props=ATTEMPT tier=thorough unwind=20 mem=8 cap=900
/// stale line `\u{20ac}\u{e9} f(`: cursor on the `f` behind the multi-byte characters (char index 3, byte index 6).
stale_arm!(k_stale_spans_after, "\u{20ac}\u{e9} f(\n", 3);
