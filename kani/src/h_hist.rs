//! F4 — the real `analyze_file` / `analyze_file_fresh` over the parser ORACLE (gen/oracle.rs): histories of
//! full-text versions. C06 (state depends on current contents only), C07 (warm == cold), C10 (buffer wins over
//! scan, serial orders), C04 (reverse index mirrors usages).
//! What is symbolic: the (file, version) choice of the later steps — each choice is its own call site with a
//! concrete text (see DESIGN §0.5). The expected state of a file is what a FRESH index records for its latest
//! valid version (generated natively from the current tree by tools/astgen.py: `fresh_*`).
use crate::fixtures::{FixtureDatabase, FixtureDefinition, FixtureUsage};
use crate::kx::{any, assume};
use crate::oracle::*;
use std::path::{Path, PathBuf};

pub const PC: &str = concat!(env!("PLSV_ROOT"), "/a/conftest.py");
pub const PU: &str = concat!(env!("PLSV_ROOT"), "/a/t_u.py");

fn same_usage(a: &FixtureUsage, b: &FixtureUsage) -> bool {
    a.line == b.line && a.start_char == b.start_char && a.end_char == b.end_char && a.name == b.name
}

/// The records the index holds for file `p` are exactly those of `want` (multisets), in all maps.
/// `tag`-prefixed obligations so that a failure names the map.
pub fn file_state_is(db: &FixtureDatabase, p: &str, want: &Fresh, check_imports: bool) -> bool {
    let pb = PathBuf::from(p);
    let mut ok = true;
    // definitions: every definition recorded for this file, under any name
    let mut n = 0usize;
    for e in db.definitions.iter() {
        for d in e.value().iter() {
            if d.file_path.as_os_str().len() == p.len() {
                n += 1;
                let hits = want.defs.iter().filter(|w| *w == d).count();
                let dup = e.value().iter().filter(|x| *x == d).count();
                if hits != 1 { note!("unexpected definition {:?}", d); ok = false; }
                if dup != 1 { note!("duplicated definition {:?}", d); ok = false; }
            }
        }
    }
    if n != want.defs.len() { note!("{} definitions recorded for {}, fresh index has {}", n, p, want.defs.len()); ok = false; }
    // no empty name vectors left behind
    for e in db.definitions.iter() { if e.value().is_empty() { note!("empty definitions entry {:?}", e.key()); ok = false; } }
    // file_definitions
    match db.file_definitions.get(&pb) {
        Some(s) => {
            if s.value().len() != want.def_names.len() { note!("file_definitions size"); ok = false; }
            for nme in want.def_names.iter() { if !s.value().contains(nme) { note!("file_definitions lacks {}", nme); ok = false; } }
        }
        None => if !want.def_names.is_empty() { note!("file_definitions entry missing"); ok = false; }
    }
    // usages
    let got_us: Vec<FixtureUsage> = db.usages.get(&pb).map(|u| u.value().clone()).unwrap_or_default();
    if got_us.len() != want.usages.len() { note!("usages: {} vs fresh {}", got_us.len(), want.usages.len()); ok = false; }
    for w in want.usages.iter() {
        if got_us.iter().filter(|g| same_usage(g, w)).count() != 1 { note!("usage {:?} not recorded exactly once", w); ok = false; }
    }
    // reverse index mirrors usages
    let mut rn = 0usize;
    for e in db.usage_by_fixture.iter() {
        if e.value().is_empty() { note!("empty usage_by_fixture entry {:?}", e.key()); ok = false; }
        for (fp, u) in e.value().iter() {
            if fp.as_os_str().len() == p.len() {
                rn += 1;
                if u.name != *e.key() { ok = false; }
                if want.usages.iter().filter(|w| same_usage(u, w)).count() != 1 { note!("reverse index has stale {:?}", u); ok = false; }
            }
        }
    }
    if rn != want.usages.len() { note!("reverse index: {} entries for {}, fresh {}", rn, p, want.usages.len()); ok = false; }
    if check_imports {
        match db.imports.get(&pb) {
            Some(s) => {
                if s.value().len() != want.imports.len() { note!("imports size"); ok = false; }
                for nme in want.imports.iter() { if !s.value().contains(nme) { note!("imports lacks {}", nme); ok = false; } }
            }
            None => if want.has_imports_entry { note!("imports entry missing"); ok = false; }
        }
    }
    ok
}

/// Put a file into the index the way ONE fresh `analyze_file(p, text)` leaves it, without running the analyzer:
/// the records are the generated `fresh_*` data (= what the real analyzer produced natively for that text on the
/// current tree; gate `seed` re-checks seed == analyze_file). Used for the FIRST state of a history so that the
/// harness pays for one real `analyze_file` (the re-analysis under test) instead of two.
pub fn seed_file_state(db: &FixtureDatabase, p: &str, text: &str, fr: &Fresh) {
    let pb = PathBuf::from(p);
    db.file_cache.insert(pb.clone(), std::sync::Arc::new(text.to_string()));
    if !fr.has_imports_entry { return; } // unparsable text: analyze_file only caches the text
    for d in fr.defs.iter() {
        db.definitions.entry(d.name.clone()).or_default().push(d.clone());
        db.definitions_version.fetch_add(1, std::sync::atomic::Ordering::SeqCst);
    }
    if !fr.def_names.is_empty() {
        let mut set = crate::coll::HashSet::new();
        for n in fr.def_names.iter() { set.insert(n.clone()); }
        db.file_definitions.insert(pb.clone(), set);
    }
    for u in fr.usages.iter() {
        db.usages.entry(pb.clone()).or_default().push(u.clone());
        db.usage_by_fixture.entry(u.name.clone()).or_default().push((pb.clone(), u.clone()));
    }
    let mut imp = crate::coll::HashSet::new();
    for n in fr.imports.iter() { imp.insert(n.clone()); }
    db.imports.insert(pb.clone(), imp);
    if !fr.undeclared.is_empty() { db.undeclared_fixtures.insert(pb.clone(), fr.undeclared.clone()); }
    // analyze_file also leaves the (content hash, line index) cache entry of the file behind — through the real code
    let _ = db.get_line_index(&pb, text);
}

pub fn empty_fresh() -> Fresh { Fresh { defs: vec![], usages: vec![], undeclared: vec![], imports: vec![], def_names: vec![], has_imports_entry: false } }

/// the table's conftest versions import nothing from other modules: the import walk (C14, out of solver reach — it
/// also crashed CBMC in `".".repeat(level)`) is replaced by its answer for these texts
pub fn stub_no_imports(_db: &FixtureDatabase, _p: &Path, _v: &mut crate::coll::HashSet<PathBuf>) -> crate::coll::HashSet<String> { crate::coll::HashSet::new() }
pub fn stub_not_imported(_db: &FixtureDatabase, _n: &str, _p: &Path) -> bool { false }
macro_rules! hist_arm {
    ($id:ident, $body:expr) => {
        #[cfg_attr(kani, kani::proof)]
        #[cfg_attr(kani, kani::stub(rustpython_parser::parse, crate::oracle::oracle_parse_hist))]
        #[cfg_attr(kani, kani::stub(std::path::Path::canonicalize, crate::stubs::canonicalize_err))]
        #[cfg_attr(kani, kani::stub(std::path::Path::exists, crate::stubs::path_exists_false))]
        #[cfg_attr(kani, kani::stub(std::hash::RandomState::new, crate::stubs::fixed_random_state))]
        #[cfg_attr(kani, kani::stub(std::arch::x86_64::__cpuid_count, crate::stubs::cpuid_none))]
        #[cfg_attr(kani, kani::stub(core::slice::memchr::memchr, crate::stubs::memchr_bytewise))]
        #[cfg_attr(kani, kani::stub(crate::fixtures::FixtureDatabase::get_imported_fixtures, stub_no_imports))]
        #[cfg_attr(kani, kani::stub(crate::fixtures::FixtureDatabase::is_fixture_imported_in_file, stub_not_imported))]
        pub fn $id() { $body }
    };
}

/// second step on the conftest: one of three versions; then the conftest's records must be those of a fresh
/// index on the latest VALID version (an unparsable version keeps the previous one in effect).
macro_rules! paste_ok {
    (T_C_BAD) => { false };
    (T_U_BAD) => { false };
    ($other:ident) => { true };
}
fn fresh_bad(_p: &str) -> Fresh { empty_fresh() }

// NOTE on what is symbolic here: nothing. A harness with a symbolic choice between two re-analyses reached the SAT
// back end with a formula that did not fit into 14 GB (everything under the choice guard stays in the equation), so
// every history is its own fully concrete harness: CBMC executes the real analyze_file on the table texts and decides
// the obligation on that single path. The coverage of this family is exactly the list of pairs below.

/// history of one file: state of version $t1 (seeded from the fresh-index data), then the REAL analyze_file on $t2;
/// the file's records in every map must equal a fresh index on the latest valid version
macro_rules! c06_pair {
    ($id:ident, $p:ident, $t1:ident, $f1:ident, $t2:ident, $want:ident) => {
        hist_arm!($id, {
            let db = FixtureDatabase::new();
            let first = $f1($p);
            seed_file_state(&db, $p, $t1, &first);
            std::mem::forget(first);
            note!("{} then {}", stringify!($t1), stringify!($t2));
            db.analyze_file(PathBuf::from($p), $t2);
            let want = $want($p);
            check!("c06.hist.state_is_fresh_state", file_state_is(&db, $p, &want, true));
            reach!("c06.hist.end");
            std::mem::forget(want); std::mem::forget(db);
        });
    };
}

/// @harness id=c06_f_then_g props=ATTEMPT tier=thorough unwind=18 mem=10 cap=1500 gates=seed unwindset=find_inner:3;memchr_seq:400;rec~ParseErrorType:3;rec~LexicalErrorType:3;rec~FStringErrorType:3;rec~drop_glue::<std::io::Error:3;memchr_bytewise:64;sip:48;next_match:40
/// conftest C_F (defines f) then C_G (f renamed to g): nothing of f survives.
c06_pair!(c06_f_then_g, PC, T_C_F, fresh_c_f, T_C_G, fresh_c_g);
/// @harness id=c06_f_then_empty props=C06 tier=quick unwind=18 mem=10 cap=1500 gates=seed unwindset=find_inner:3;memchr_seq:400;rec~ParseErrorType:3;rec~LexicalErrorType:3;rec~FStringErrorType:3;rec~drop_glue::<std::io::Error:3;memchr_bytewise:64;sip:48;next_match:40
/// conftest C_F then the empty text: all records gone.
c06_pair!(c06_f_then_empty, PC, T_C_F, fresh_c_f, T_C_EMPTY, fresh_c_empty);
/// @harness id=c06_f_then_bad props=ATTEMPT tier=thorough unwind=18 mem=10 cap=1500 gates=seed unwindset=find_inner:3;memchr_seq:400;rec~ParseErrorType:3;rec~LexicalErrorType:3;rec~FStringErrorType:3;rec~drop_glue::<std::io::Error:3;memchr_bytewise:64;sip:48;next_match:40
/// conftest C_F then an unparsable text: the last valid version stays in effect.
c06_pair!(c06_f_then_bad, PC, T_C_F, fresh_c_f, T_C_BAD, fresh_c_f);
/// @harness id=c06_f_then_comment props=C06 tier=quick unwind=18 mem=10 cap=1500 gates=seed unwindset=find_inner:3;memchr_seq:400;rec~ParseErrorType:3;rec~LexicalErrorType:3;rec~FStringErrorType:3;rec~drop_glue::<std::io::Error:3;memchr_bytewise:64;sip:48;next_match:40
/// conftest C_F then a comment-only text (parses, zero statements): all records gone.
c06_pair!(c06_f_then_comment, PC, T_C_F, fresh_c_f, T_C_COMMENT, fresh_c_comment);
/// @harness id=c06_ff_then_f props=ATTEMPT tier=thorough unwind=18 mem=10 cap=1500 gates=seed unwindset=find_inner:3;memchr_seq:400;rec~ParseErrorType:3;rec~LexicalErrorType:3;rec~FStringErrorType:3;rec~drop_glue::<std::io::Error:3;memchr_bytewise:64;sip:48;next_match:40
/// conftest C_FF (the same name defined twice in one file) then C_F: exactly one definition remains.
c06_pair!(c06_ff_then_f, PC, T_C_FF, fresh_c_ff, T_C_F, fresh_c_f);
/// @harness id=c06_moved_then_f props=ATTEMPT tier=thorough unwind=18 mem=10 cap=1500 gates=seed unwindset=find_inner:3;memchr_seq:400;rec~ParseErrorType:3;rec~LexicalErrorType:3;rec~FStringErrorType:3;rec~drop_glue::<std::io::Error:3;memchr_bytewise:64;sip:48;next_match:40
/// conftest C_F_MOVED (f(g), g) then C_F: the usage of g and the definition g are gone, f is at its new line.
c06_pair!(c06_moved_then_f, PC, T_C_F_MOVED, fresh_c_f_moved, T_C_F, fresh_c_f);
/// @harness id=c06_f_then_moved props=ATTEMPT tier=thorough unwind=18 mem=10 cap=1500 gates=seed unwindset=find_inner:3;memchr_seq:400;rec~ParseErrorType:3;rec~LexicalErrorType:3;rec~FStringErrorType:3;rec~drop_glue::<std::io::Error:3;memchr_bytewise:64;sip:48;next_match:40
/// conftest C_F then C_F_MOVED.
c06_pair!(c06_f_then_moved, PC, T_C_F, fresh_c_f, T_C_F_MOVED, fresh_c_f_moved);
/// @harness id=c06_f_then_same props=ATTEMPT tier=thorough unwind=18 mem=10 cap=1500 gates=seed unwindset=find_inner:3;memchr_seq:400;rec~ParseErrorType:3;rec~LexicalErrorType:3;rec~FStringErrorType:3;rec~drop_glue::<std::io::Error:3;memchr_bytewise:64;sip:48;next_match:40
/// conftest C_F re-sent unchanged: nothing duplicated.
c06_pair!(c06_f_then_same, PC, T_C_F, fresh_c_f, T_C_F, fresh_c_f);
/// @harness id=c06_ff_then_empty props=C06,C04 tier=quick unwind=18 mem=10 cap=1500 gates=seed unwindset=find_inner:3;memchr_seq:400;rec~ParseErrorType:3;rec~LexicalErrorType:3;rec~FStringErrorType:3;rec~drop_glue::<std::io::Error:3;memchr_bytewise:64;sip:48;next_match:40
/// conftest C_FF then empty.
c06_pair!(c06_ff_then_empty, PC, T_C_FF, fresh_c_ff, T_C_EMPTY, fresh_c_empty);
/// @harness id=c06_moved_then_bad props=ATTEMPT tier=thorough unwind=18 mem=10 cap=1500 gates=seed unwindset=find_inner:3;memchr_seq:400;rec~ParseErrorType:3;rec~LexicalErrorType:3;rec~FStringErrorType:3;rec~drop_glue::<std::io::Error:3;memchr_bytewise:64;sip:48;next_match:40
/// conftest C_F_MOVED then unparsable.
c06_pair!(c06_moved_then_bad, PC, T_C_F_MOVED, fresh_c_f_moved, T_C_BAD, fresh_c_f_moved);
/// @harness id=c06_moved_then_ff props=ATTEMPT tier=thorough unwind=18 mem=10 cap=1500 gates=seed unwindset=find_inner:3;memchr_seq:400;rec~ParseErrorType:3;rec~LexicalErrorType:3;rec~FStringErrorType:3;rec~drop_glue::<std::io::Error:3;memchr_bytewise:64;sip:48;next_match:40
/// conftest C_F_MOVED then C_FF.
c06_pair!(c06_moved_then_ff, PC, T_C_F_MOVED, fresh_c_f_moved, T_C_FF, fresh_c_ff);
/// @harness id=c06_test_then_two_params props=ATTEMPT tier=thorough unwind=18 mem=10 cap=1500 gates=seed unwindset=find_inner:3;memchr_seq:400;rec~ParseErrorType:3;rec~LexicalErrorType:3;rec~FStringErrorType:3;rec~drop_glue::<std::io::Error:3;memchr_bytewise:64;sip:48;next_match:40
/// test module U_T then U_TG (moved one line down, second parameter): usages and reverse index follow.
c06_pair!(c06_test_then_two_params, PU, T_U_T, fresh_u_t, T_U_TG, fresh_u_tg);
/// @harness id=c06_test_then_bad props=ATTEMPT tier=thorough unwind=18 mem=10 cap=1500 gates=seed unwindset=find_inner:3;memchr_seq:400;rec~ParseErrorType:3;rec~LexicalErrorType:3;rec~FStringErrorType:3;rec~drop_glue::<std::io::Error:3;memchr_bytewise:64;sip:48;next_match:40
/// test module U_T then unparsable.
c06_pair!(c06_test_then_bad, PU, T_U_T, fresh_u_t, T_U_BAD, fresh_u_t);

/// @harness id=c06_moved_then_empty props=C06,C04,C12 tier=quick unwind=18 mem=10 cap=1500 gates=seed unwindset=find_inner:3;memchr_seq:400;rec~ParseErrorType:3;rec~LexicalErrorType:3;rec~FStringErrorType:3;rec~drop_glue::<std::io::Error:3;memchr_bytewise:64;sip:48;next_match:40
/// conftest C_F_MOVED (f(g) with a usage, g) then the empty text: definitions, usages and reverse-index entries are all gone.
c06_pair!(c06_moved_then_empty, PC, T_C_F_MOVED, fresh_c_f_moved, T_C_EMPTY, fresh_c_empty);
/// @harness id=c06_moved_then_comment props=C06 tier=thorough unwind=18 mem=10 cap=1500 gates=seed unwindset=find_inner:3;memchr_seq:400;rec~ParseErrorType:3;rec~LexicalErrorType:3;rec~FStringErrorType:3;rec~drop_glue::<std::io::Error:3;memchr_bytewise:64;sip:48;next_match:40
/// conftest C_F_MOVED then a comment-only text.
c06_pair!(c06_moved_then_comment, PC, T_C_F_MOVED, fresh_c_f_moved, T_C_COMMENT, fresh_c_comment);
/// @harness id=c06_test_then_empty props=C06,C04 tier=quick unwind=18 mem=10 cap=1500 gates=seed unwindset=find_inner:3;memchr_seq:400;rec~ParseErrorType:3;rec~LexicalErrorType:3;rec~FStringErrorType:3;rec~drop_glue::<std::io::Error:3;memchr_bytewise:64;sip:48;next_match:40
/// test module U_TG (two usages) then the empty text: usages and the reverse index are emptied.
c06_pair!(c06_test_then_empty, PU, T_U_TG, fresh_u_tg, T_C_EMPTY, fresh_c_empty);
/// @harness id=c06_scoped_then_comment props=C06,C04 tier=thorough unwind=18 mem=10 cap=1500 gates=seed unwindset=find_inner:3;memchr_seq:400;rec~ParseErrorType:3;rec~LexicalErrorType:3;rec~FStringErrorType:3;rec~drop_glue::<std::io::Error:3;memchr_bytewise:64;sip:48;next_match:40
/// conftest C_SCOPED (f <-> g cycle, scopes) then a comment-only text.
c06_pair!(c06_scoped_then_comment, PC, T_C_SCOPED, fresh_c_scoped, T_C_COMMENT, fresh_c_comment);

/// @harness id=c06_same_length_edit props=ATTEMPT tier=thorough unwind=18 mem=12 cap=1800 gates=seed unwindset=find_inner:3;memchr_seq:400;memchr_bytewise:140;rec~ParseErrorType:3;rec~LexicalErrorType:3;rec~FStringErrorType:3;rec~drop_glue::<std::io::Error:3;sip:48;next_match:40
/// a test module longer than 256 bytes is re-analysed with content of the SAME length whose first and last 128
/// bytes are unchanged (a space after a comma became a newline): positions must be those of a fresh index.
c06_pair!(c06_same_length_edit, PU, T_L_ONE_LINE, fresh_l_one_line, T_L_TWO_LINES, fresh_l_two_lines);

// ------------------------------------------------------------------------------------------------ C10
/// serial orders of {scan worker: analyze_file_fresh(F, disk)} and {didOpen / didChange: analyze_file(F, buffer)}.
macro_rules! c10_scan_open {
    ($id:ident, $buf:ident, $fbuf:ident) => {
        hist_arm!($id, {
            let db = FixtureDatabase::new();
            let disk = fresh_c_f(PC);
            // the scan worker's analyze_file_fresh on a file not seen before == a fresh analysis (gate `seed`)
            seed_file_state(&db, PC, T_C_F, &disk);
            std::mem::forget(disk);
            note!("scan C_F, then open {}", stringify!($buf));
            db.analyze_file(PathBuf::from(PC), $buf);
            let want = $fbuf(PC);
            check!("c10.scan_then_open.buffer_exactly_once", file_state_is(&db, PC, &want, true));
            reach!("c10.scan_then_open.end");
            std::mem::forget(want); std::mem::forget(db);
        });
    };
}
macro_rules! c10_open_scan {
    ($id:ident, $open:ident, $fo:ident, $next:ident, $fn_:ident) => {
        hist_arm!($id, {
            let db = FixtureDatabase::new();
            note!("open {} (seeded), scan C_F, then change {}", stringify!($open), stringify!($next));
            let opened = $fo(PC);
            seed_file_state(&db, PC, $open, &opened);
            db.analyze_file_fresh(PathBuf::from(PC), T_C_F);
            if crate::kf::C10_SCAN_AFTER_OPEN_OVERWRITES {
                check!("KF:c10.open_then_scan.buffer_exactly_once", file_state_is(&db, PC, &opened, true));
            } else {
                check!("c10.open_then_scan.buffer_exactly_once", file_state_is(&db, PC, &opened, true));
            }
            db.analyze_file(PathBuf::from(PC), $next);
            let want2 = $fn_(PC);
            check!("c10.open_then_scan.next_change_restores", file_state_is(&db, PC, &want2, true));
            reach!("c10.open_then_scan.end");
            std::mem::forget(opened); std::mem::forget(want2); std::mem::forget(db);
        });
    };
}

/// @harness id=c10_scan_then_open_other props=ATTEMPT tier=thorough unwind=18 mem=10 cap=1500 gates=seed unwindset=find_inner:3;memchr_seq:400;rec~ParseErrorType:3;rec~LexicalErrorType:3;rec~FStringErrorType:3;rec~drop_glue::<std::io::Error:3;memchr_bytewise:64;sip:48;next_match:40
/// the scan visited the conftest first (disk = C_F), then didOpen with a different buffer C_G: the buffer exactly once.
c10_scan_open!(c10_scan_then_open_other, T_C_G, fresh_c_g);
/// @harness id=c10_scan_then_open_same props=ATTEMPT tier=thorough unwind=18 mem=10 cap=1500 gates=seed unwindset=find_inner:3;memchr_seq:400;rec~ParseErrorType:3;rec~LexicalErrorType:3;rec~FStringErrorType:3;rec~drop_glue::<std::io::Error:3;memchr_bytewise:64;sip:48;next_match:40
/// scan (C_F) then didOpen with the same text.
c10_scan_open!(c10_scan_then_open_same, T_C_F, fresh_c_f);
/// @harness id=c10_open_other_then_scan props=ATTEMPT tier=thorough unwind=18 mem=10 cap=2400 gates=seed unwindset=find_inner:3;memchr_seq:400;rec~ParseErrorType:3;rec~LexicalErrorType:3;rec~FStringErrorType:3;rec~drop_glue::<std::io::Error:3;memchr_bytewise:64;sip:48;next_match:40
/// didOpen (buffer C_G) first, then the scan worker reaches the file with the disk content C_F: the buffer must win; a further change whose text equals the DISK text (C_F) must restore the single-analysis state.
c10_open_scan!(c10_open_other_then_scan, T_C_G, fresh_c_g, T_C_F, fresh_c_f);
/// @harness id=c10_open_same_then_scan props=ATTEMPT tier=thorough unwind=18 mem=10 cap=2400 gates=seed unwindset=find_inner:3;memchr_seq:400;rec~ParseErrorType:3;rec~LexicalErrorType:3;rec~FStringErrorType:3;rec~drop_glue::<std::io::Error:3;memchr_bytewise:64;sip:48;next_match:40
/// didOpen (buffer == disk == C_F), then the scan: still exactly once; a further change (C_G) restores.
c10_open_scan!(c10_open_same_then_scan, T_C_F, fresh_c_f, T_C_G, fresh_c_g);

/// @harness id=c10_open_then_scan_empty_disk props=C10 tier=quick unwind=18 mem=10 cap=1500 gates=seed unwindset=find_inner:3;memchr_seq:400;rec~ParseErrorType:3;rec~LexicalErrorType:3;rec~FStringErrorType:3;rec~drop_glue::<std::io::Error:3;memchr_bytewise:64;sip:48;next_match:40
/// didOpen with buffer C_F_MOVED (seeded: definitions f, g and a usage), then the scan worker reaches the file whose
/// DISK content is empty (real analyze_file_fresh): the index must still describe the buffer, exactly once; a further
/// change notification (whose text equals the disk text) must leave exactly the single-analysis state.
hist_arm!(c10_open_then_scan_empty_disk, {
    let db = FixtureDatabase::new();
    let opened = fresh_c_f_moved(PC);
    seed_file_state(&db, PC, T_C_F_MOVED, &opened);
    db.analyze_file_fresh(PathBuf::from(PC), T_C_EMPTY);
    if crate::kf::C10_SCAN_AFTER_OPEN_OVERWRITES {
        check!("KF:c10.open_then_scan.buffer_exactly_once", file_state_is(&db, PC, &opened, true));
    } else {
        check!("c10.open_then_scan.buffer_exactly_once", file_state_is(&db, PC, &opened, true));
    }
    // the further change notification carries the text the scan left in file_cache (the DISK text, here empty):
    // an "unchanged content" shortcut must not swallow it
    db.analyze_file(PathBuf::from(PC), T_C_EMPTY);
    let want2 = fresh_c_empty(PC);
    check!("c10.open_then_scan.next_change_restores", file_state_is(&db, PC, &want2, true));
    reach!("c10.open_then_scan.end");
    std::mem::forget(opened); std::mem::forget(want2); std::mem::forget(db);
});
/// @harness id=c10_scan_then_open_empty_buffer props=C10 tier=quick unwind=18 mem=10 cap=1500 gates=seed unwindset=find_inner:3;memchr_seq:400;rec~ParseErrorType:3;rec~LexicalErrorType:3;rec~FStringErrorType:3;rec~drop_glue::<std::io::Error:3;memchr_bytewise:64;sip:48;next_match:40
/// the scan visited the conftest first (disk = C_F_MOVED, seeded), then didOpen with an EMPTY buffer (real
/// analyze_file): the index must describe the buffer — nothing of the disk version survives.
hist_arm!(c10_scan_then_open_empty_buffer, {
    let db = FixtureDatabase::new();
    let disk = fresh_c_f_moved(PC);
    seed_file_state(&db, PC, T_C_F_MOVED, &disk);
    std::mem::forget(disk);
    db.analyze_file(PathBuf::from(PC), T_C_EMPTY);
    let want = fresh_c_empty(PC);
    check!("c10.scan_then_open.buffer_exactly_once", file_state_is(&db, PC, &want, true));
    reach!("c10.scan_then_open.end");
    std::mem::forget(want); std::mem::forget(db);
});

/// @harness id=c04_mirror_open_then_scan props=C04,C10 tier=quick unwind=18 mem=10 cap=1500 gates=seed unwindset=find_inner:3;memchr_seq:400;rec~ParseErrorType:3;rec~LexicalErrorType:3;rec~FStringErrorType:3;rec~drop_glue::<std::io::Error:3;memchr_bytewise:64;sip:48;next_match:40
/// the test module is open (U_TG, seeded: two usages) and then reached by the scan (analyze_file_fresh, empty disk
/// content): the reverse index must still mirror `usages` exactly (no stale or duplicated entry).
hist_arm!(c04_mirror_open_then_scan, {
    let db = FixtureDatabase::new();
    let want = fresh_u_tg(PU);
    seed_file_state(&db, PU, T_U_TG, &want);
    std::mem::forget(want);
    // the scan worker then reaches the file; its disk content is empty (a non-trivial text would put a real AST under
    // the symbolic executor, which is out of reach — DESIGN §9.2)
    db.analyze_file_fresh(PathBuf::from(PU), T_C_EMPTY);
    let want = fresh_c_empty(PU);
    let pb = PathBuf::from(PU);
    let n_us = db.usages.get(&pb).map(|u| u.value().len()).unwrap_or(0);
    let mut n_rev = 0usize;
    for e in db.usage_by_fixture.iter() { for (fp, _u) in e.value().iter() { if fp.as_os_str().len() == PU.len() { n_rev += 1; } } }
    note!("usages={} reverse-index entries={} fresh={}", n_us, n_rev, want.usages.len());
    check!("c04.mirror.reverse_index_equals_usages", n_rev == n_us);
    check!("c04.mirror.usages_are_fresh", n_us == want.usages.len());
    reach!("c04.mirror.end");
    std::mem::forget(want); std::mem::forget(db);
});

// ------------------------------------------------------------------------------------------------ C07
/// conftest C_F in the index (seeded); WARM the per-file view of U; then the conftest is re-analysed with the EMPTY
/// text (real analyze_file: every definition removed); the warm answer must be what an index that was never
/// queried before answers — which, for a file without definitions, is the empty view (fresh_c_empty has no
/// definitions). Scalars only are compared (entry count, line of the first entry): comparing cloned Strings or
/// running a twin database pushed the propositional encoding over 12 GB.
/// @harness id=c07_warm_then_remove props=C07 tier=quick unwind=18 mem=10 cap=1500 gates=seed unwindset=memchr_seq:400;memchr_bytewise:64;sip:48;next_match:40;rec~ParseErrorType:3;rec~LexicalErrorType:3;rec~FStringErrorType:3
/// warm per-file view, then the edit only REMOVES definitions (empty text): warm == cold.
hist_arm!(c07_warm_then_remove, {
    let db = FixtureDatabase::new();
    let first = fresh_c_f(PC);
    seed_file_state(&db, PC, T_C_F, &first);
    let warm0 = db.get_available_fixtures(Path::new(PU));
    note!("warm view before the edit: {} entries", warm0.len());
    db.analyze_file(PathBuf::from(PC), T_C_EMPTY);
    let warm = db.get_available_fixtures(Path::new(PU));
    let cold_len = fresh_c_empty(PC).defs.len();
    note!("warm view after the edit: {} entries (first line {:?}); cold view: {} entries", warm.len(), warm.first().map(|d| d.line), cold_len);
    check!("c07.available.warmed_before_edit", warm0.len() == 1);
    if crate::kf::C07_NO_VERSION_BUMP_ON_REMOVAL {
        check!("KF:c07.available.warm_is_cold", warm.len() == cold_len);
    } else {
        check!("c07.available.warm_is_cold", warm.len() == cold_len);
    }
    reach!("c07.available.end");
    std::mem::forget(warm0); std::mem::forget(warm); std::mem::forget(first); std::mem::forget(db);
});
/// @harness id=c07_close_conftest props=C07 tier=quick unwind=18 mem=10 cap=1500 gates=seed unwindset=memchr_seq:400;memchr_bytewise:64;sip:48;next_match:40;rec~ParseErrorType:3;rec~LexicalErrorType:3;rec~FStringErrorType:3
/// conftest C_F in the index (seeded); the per-file view of U is computed, the conftest document is closed
/// (cleanup_file_cache), the view is computed again: same number of entries, same definition line.
hist_arm!(c07_close_conftest, {
    let db = FixtureDatabase::new();
    let first = fresh_c_f(PC);
    seed_file_state(&db, PC, T_C_F, &first);
    let before = db.get_available_fixtures(Path::new(PU));
    db.cleanup_file_cache(Path::new(PC));
    let after = db.get_available_fixtures(Path::new(PU));
    note!("view before close: {:?}; after: {:?}", before.iter().map(|d| d.line).collect::<Vec<_>>(), after.iter().map(|d| d.line).collect::<Vec<_>>());
    check!("c07.close.view_unchanged", before.len() == after.len() && before.first().map(|d| d.line) == after.first().map(|d| d.line));
    reach!("c07.close.end");
    std::mem::forget(before); std::mem::forget(after); std::mem::forget(first); std::mem::forget(db);
});
