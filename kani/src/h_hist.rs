//! F4 — the real `analyze_file` / `analyze_file_fresh` over the parser ORACLE (gen/oracle.rs): histories of
//! full-text versions. C06 (state depends on current contents only), C07 (warm == cold), C10 (buffer wins over
//! scan, serial orders), C04 (reverse index mirrors usages).
//! What is symbolic: the (file, version) choice of the later steps — each choice is its own call site with a
//! concrete text (see DESIGN §0.5). The expected state of a file is what a FRESH index records for its latest
//! valid version (generated natively from the current tree by tools/astgen.py: `fresh_*`).
use crate::fixtures::{FixtureDatabase, FixtureDefinition, FixtureUsage};
use crate::kx::{any, assume};
use crate::oracle::*;
use std::path::{Path, PathBuf};

pub const PC: &str = concat!(env!("PLSV_ROOT"), "/a/conftest.py");
pub const PU: &str = concat!(env!("PLSV_ROOT"), "/a/t_u.py");

fn same_usage(a: &FixtureUsage, b: &FixtureUsage) -> bool {
    a.line == b.line && a.start_char == b.start_char && a.end_char == b.end_char && a.name == b.name
}

/// The records the index holds for file `p` are exactly those of `want` (multisets), in all maps.
/// `tag`-prefixed obligations so that a failure names the map.
pub fn file_state_is(db: &FixtureDatabase, p: &str, want: &Fresh, check_imports: bool) -> bool {
    let pb = PathBuf::from(p);
    let mut ok = true;
    // definitions: every definition recorded for this file, under any name
    let mut n = 0usize;
    for e in db.definitions.iter() {
        for d in e.value().iter() {
            if d.file_path.as_os_str().len() == p.len() {
                n += 1;
                let hits = want.defs.iter().filter(|w| *w == d).count();
                let dup = e.value().iter().filter(|x| *x == d).count();
                if hits != 1 { note!("unexpected definition {:?}", d); ok = false; }
                if dup != 1 { note!("duplicated definition {:?}", d); ok = false; }
            }
        }
    }
    if n != want.defs.len() { note!("{} definitions recorded for {}, fresh index has {}", n, p, want.defs.len()); ok = false; }
    // no empty name vectors left behind
    for e in db.definitions.iter() { if e.value().is_empty() { note!("empty definitions entry {:?}", e.key()); ok = false; } }
    // file_definitions
    match db.file_definitions.get(&pb) {
        Some(s) => {
            if s.value().len() != want.def_names.len() { note!("file_definitions size"); ok = false; }
            for nme in want.def_names.iter() { if !s.value().contains(nme) { note!("file_definitions lacks {}", nme); ok = false; } }
        }
        None => if !want.def_names.is_empty() { note!("file_definitions entry missing"); ok = false; }
    }
    // usages
    let got_us: Vec<FixtureUsage> = db.usages.get(&pb).map(|u| u.value().clone()).unwrap_or_default();
    if got_us.len() != want.usages.len() { note!("usages: {} vs fresh {}", got_us.len(), want.usages.len()); ok = false; }
    for w in want.usages.iter() {
        if got_us.iter().filter(|g| same_usage(g, w)).count() != 1 { note!("usage {:?} not recorded exactly once", w); ok = false; }
    }
    // reverse index mirrors usages
    let mut rn = 0usize;
    for e in db.usage_by_fixture.iter() {
        if e.value().is_empty() { note!("empty usage_by_fixture entry {:?}", e.key()); ok = false; }
        for (fp, u) in e.value().iter() {
            if fp.as_os_str().len() == p.len() {
                rn += 1;
                if u.name != *e.key() { ok = false; }
                if want.usages.iter().filter(|w| same_usage(u, w)).count() != 1 { note!("reverse index has stale {:?}", u); ok = false; }
            }
        }
    }
    if rn != want.usages.len() { note!("reverse index: {} entries for {}, fresh {}", rn, p, want.usages.len()); ok = false; }
    if check_imports {
        match db.imports.get(&pb) {
            Some(s) => {
                if s.value().len() != want.imports.len() { note!("imports size"); ok = false; }
                for nme in want.imports.iter() { if !s.value().contains(nme) { note!("imports lacks {}", nme); ok = false; } }
            }
            None => if want.has_imports_entry { note!("imports entry missing"); ok = false; }
        }
    }
    ok
}

pub fn empty_fresh() -> Fresh { Fresh { defs: vec![], usages: vec![], undeclared: vec![], imports: vec![], def_names: vec![], has_imports_entry: false } }

macro_rules! hist_arm {
    ($id:ident, $body:expr) => {
        #[cfg_attr(kani, kani::proof)]
        #[cfg_attr(kani, kani::stub(rustpython_parser::parse, crate::oracle::oracle_parse))]
        #[cfg_attr(kani, kani::stub(std::path::Path::canonicalize, crate::stubs::canonicalize_err))]
        #[cfg_attr(kani, kani::stub(std::path::Path::exists, crate::stubs::path_exists_false))]
        #[cfg_attr(kani, kani::stub(std::hash::RandomState::new, crate::stubs::fixed_random_state))]
        #[cfg_attr(kani, kani::stub(std::arch::x86_64::__cpuid_count, crate::stubs::cpuid_none))]
        #[cfg_attr(kani, kani::stub(core::slice::memchr::memchr, crate::stubs::memchr_bytewise))]
        pub fn $id() { $body }
    };
}

/// second step on the conftest: one of three versions; then the conftest's records must be those of a fresh
/// index on the latest VALID version (an unparsable version keeps the previous one in effect).
macro_rules! paste_ok {
    (T_C_BAD) => { false };
    (T_U_BAD) => { false };
    ($other:ident) => { true };
}
/// one arm of the symbolic second step: analyse version $t of the conftest and compare, INSIDE the arm
/// (a state merged over three different analyses would make every later read a symbolic pointer)
macro_rules! c06_arm {
    ($db:ident, $first_fresh:expr, $t:ident, $f:ident) => {{
        note!("then {}", stringify!($t));
        $db.analyze_file(PathBuf::from(PC), $t);
        let want = if paste_ok!($t) { $f(PC) } else { $first_fresh(PC) };
        check!("c06.hist.state_is_fresh_state", file_state_is(&$db, PC, &want, true));
        std::mem::forget(want);
    }};
}
macro_rules! conftest_step2 {
    ($first_text:expr, $first_fresh:expr, $a:ident, $fa:ident, $b:ident, $fb:ident, $c:ident, $fc:ident) => {{
        let db = FixtureDatabase::new();
        db.analyze_file(PathBuf::from(PC), $first_text);
        let k: u8 = any();
        assume(k < 3);
        match k { 0 => c06_arm!(db, $first_fresh, $a, $fa), 1 => c06_arm!(db, $first_fresh, $b, $fb), _ => c06_arm!(db, $first_fresh, $c, $fc) }
        reach!("c06.hist.end");
        std::mem::forget(db);
    }};
}
fn fresh_bad(_p: &str) -> Fresh { empty_fresh() }

/// @harness id=c06_f_then_rename_empty_bad props=C06,C04,C12 unwind=40 mem=12 cap=2400
/// conftest: C_F (defines f), then symbolically one of { C_G (f renamed to g), C_EMPTY, C_BAD (unparsable) }.
hist_arm!(c06_f_then_rename_empty_bad, conftest_step2!(T_C_F, fresh_c_f, T_C_G, fresh_c_g, T_C_EMPTY, fresh_c_empty, T_C_BAD, fresh_bad));
/// @harness id=c06_f_then_moved_comment_same props=C06,C04 unwind=40 mem=12 cap=2400
/// conftest: C_F, then one of { C_F_MOVED (other line, a usage, plus g), C_COMMENT (parses, no statements), C_F again }.
hist_arm!(c06_f_then_moved_comment_same, conftest_step2!(T_C_F, fresh_c_f, T_C_F_MOVED, fresh_c_f_moved, T_C_COMMENT, fresh_c_comment, T_C_F, fresh_c_f));
/// @harness id=c06_ff_then_f_empty_ff props=C06 unwind=40 mem=12 cap=2400
/// conftest: C_FF (the same name defined twice), then one of { C_F, C_EMPTY, C_FF again }.
hist_arm!(c06_ff_then_f_empty_ff, conftest_step2!(T_C_FF, fresh_c_ff, T_C_F, fresh_c_f, T_C_EMPTY, fresh_c_empty, T_C_FF, fresh_c_ff));
/// @harness id=c06_moved_then_f_g_bad props=C06,C04 unwind=40 mem=12 cap=2400
/// conftest: C_F_MOVED (f(g), g), then one of { C_F (usage and g removed), C_G, C_BAD }.
hist_arm!(c06_moved_then_f_g_bad, conftest_step2!(T_C_F_MOVED, fresh_c_f_moved, T_C_F, fresh_c_f, T_C_G, fresh_c_g, T_C_BAD, fresh_bad));

/// @harness id=c06_two_files props=C06,C04 unwind=40 mem=12 cap=2400
/// conftest C_F and test module U_T analysed; then the test module changes to one of { U_TG, U_BAD, U_NONE };
/// both files' records must be fresh-state, the other file untouched.
hist_arm!(c06_two_files, {
    let db = FixtureDatabase::new();
    db.analyze_file(PathBuf::from(PC), T_C_F);
    db.analyze_file(PathBuf::from(PU), T_U_T);
    let k: u8 = any();
    assume(k < 3);
    macro_rules! arm { ($t:ident, $f:ident) => {{
        note!("then {}", stringify!($t));
        db.analyze_file(PathBuf::from(PU), $t);
        let want_u = $f(PU);
        let want_c = fresh_c_f(PC);
        check!("c06.two.test_module_is_fresh_state", file_state_is(&db, PU, &want_u, true));
        check!("c06.two.conftest_untouched", file_state_is(&db, PC, &want_c, true));
        std::mem::forget(want_u); std::mem::forget(want_c);
    }}; }
    match k { 0 => arm!(T_U_TG, fresh_u_tg), 1 => arm!(T_U_BAD, fresh_u_t), _ => arm!(T_U_NONE, fresh_u_none) }
    reach!("c06.two.end");
    std::mem::forget(db);
});

/// @harness id=c06_same_length_edit props=C06,C15 unwind=48 mem=14 cap=3000 unwindset=memchr_bytewise:140
/// a test module longer than 256 bytes is re-analysed with content of the SAME length whose first and last 128
/// bytes are unchanged (a space after a comma became a newline): positions must be those of a fresh index.
hist_arm!(c06_same_length_edit, {
    let db = FixtureDatabase::new();
    db.analyze_file(PathBuf::from(PU), T_L_ONE_LINE);
    db.analyze_file(PathBuf::from(PU), T_L_TWO_LINES);
    let want = fresh_l_two_lines(PU);
    check!("c06.same_length.state_is_fresh_state", file_state_is(&db, PU, &want, true));
    reach!("c06.same_length.end");
    std::mem::forget(want); std::mem::forget(db);
});

// ------------------------------------------------------------------------------------------------ C10
/// serial orders of {scan worker: analyze_file_fresh(F, disk)} and {didOpen: analyze_file(F, buffer)}.
/// Afterwards the index must describe the BUFFER exactly once.
/// @harness id=c10_scan_then_open props=C10 unwind=40 mem=12 cap=2400
/// scan visits the conftest first (disk = C_F), then didOpen with buffer in { C_G, C_F (same), C_F_MOVED }.
hist_arm!(c10_scan_then_open, {
    let db = FixtureDatabase::new();
    db.analyze_file_fresh(PathBuf::from(PC), T_C_F);
    let k: u8 = any();
    assume(k < 3);
    macro_rules! arm { ($t:ident, $f:ident) => {{
        note!("open {}", stringify!($t));
        db.analyze_file(PathBuf::from(PC), $t);
        let want = $f(PC);
        check!("c10.scan_then_open.buffer_exactly_once", file_state_is(&db, PC, &want, true));
        std::mem::forget(want);
    }}; }
    match k { 0 => arm!(T_C_G, fresh_c_g), 1 => arm!(T_C_F, fresh_c_f), _ => arm!(T_C_F_MOVED, fresh_c_f_moved) }
    reach!("c10.scan_then_open.end");
    std::mem::forget(db);
});
/// @harness id=c10_open_then_scan props=C10 unwind=40 mem=12 cap=2400
/// didOpen first (buffer = C_G or C_F), then the scan worker reaches the file with the disk content C_F.
/// The buffer must win; and one further change notification (symbolically C_F_MOVED, or C_F = the disk text again)
/// must restore the single-analysis state.
hist_arm!(c10_open_then_scan, {
    let k: u8 = any();
    assume(k < 4);
    macro_rules! arm { ($open:ident, $fo:ident, $next:ident, $fn_:ident) => {{
        let db = FixtureDatabase::new();
        note!("open {}, scan C_F, then change {}", stringify!($open), stringify!($next));
        db.analyze_file(PathBuf::from(PC), $open);
        db.analyze_file_fresh(PathBuf::from(PC), T_C_F);
        let want = $fo(PC);
        if crate::kf::C10_SCAN_AFTER_OPEN_OVERWRITES {
            check!("KF:c10.open_then_scan.buffer_exactly_once", file_state_is(&db, PC, &want, true));
        } else {
            check!("c10.open_then_scan.buffer_exactly_once", file_state_is(&db, PC, &want, true));
        }
        db.analyze_file(PathBuf::from(PC), $next);
        let want2 = $fn_(PC);
        check!("c10.open_then_scan.next_change_restores", file_state_is(&db, PC, &want2, true));
        std::mem::forget(want); std::mem::forget(want2); std::mem::forget(db);
    }}; }
    match k {
        0 => arm!(T_C_G, fresh_c_g, T_C_F_MOVED, fresh_c_f_moved),
        1 => arm!(T_C_G, fresh_c_g, T_C_F, fresh_c_f),
        2 => arm!(T_C_F, fresh_c_f, T_C_F_MOVED, fresh_c_f_moved),
        _ => arm!(T_C_F, fresh_c_f, T_C_F, fresh_c_f),
    }
    reach!("c10.open_then_scan.end");
});
/// @harness id=c04_mirror_open_then_scan props=C04,C10 unwind=40 mem=12 cap=2400
/// the test module is opened (analyze_file U_TG) and then reached by the scan with the same text
/// (analyze_file_fresh U_TG), no edit in between: the reverse index must still mirror `usages` (no usage twice).
hist_arm!(c04_mirror_open_then_scan, {
    let db = FixtureDatabase::new();
    db.analyze_file(PathBuf::from(PU), T_U_TG);
    db.analyze_file_fresh(PathBuf::from(PU), T_U_TG);
    let want = fresh_u_tg(PU);
    let pb = PathBuf::from(PU);
    let n_us = db.usages.get(&pb).map(|u| u.value().len()).unwrap_or(0);
    let mut n_rev = 0usize;
    for e in db.usage_by_fixture.iter() { for (fp, _u) in e.value().iter() { if fp.as_os_str().len() == PU.len() { n_rev += 1; } } }
    note!("usages={} reverse-index entries={} fresh={}", n_us, n_rev, want.usages.len());
    check!("c04.mirror.reverse_index_equals_usages", n_rev == n_us);
    check!("c04.mirror.usages_are_fresh", n_us == want.usages.len());
    reach!("c04.mirror.end");
    std::mem::forget(want); std::mem::forget(db);
});

// ------------------------------------------------------------------------------------------------ C07
fn lines_of(v: &[FixtureDefinition]) -> Vec<(String, usize)> { v.iter().map(|d| (d.name.clone(), d.line)).collect() }
fn clear_caches(db: &FixtureDatabase) {
    db.available_fixtures_cache.clear();
    db.cycle_cache.clear();
    db.imported_fixtures_cache.clear();
    db.line_index_cache.clear();
    db.ast_cache.clear();
}
/// @harness id=c07_warm_available props=C07 unwind=40 mem=14 cap=3000
/// analyse conftest C_F; WARM the per-file view of U; then the conftest changes to one of
/// { C_EMPTY (definitions only removed), C_G (renamed), C_F_LINE (same names, moved), C_F_MOVED }; the warm answer must equal the answer
/// after dropping every cache (cold).
hist_arm!(c07_warm_available, {
    let k: u8 = any();
    assume(k < 4);
    macro_rules! arm { ($t:ident, $kf:expr) => {{
        let db = FixtureDatabase::new();
        db.analyze_file(PathBuf::from(PC), T_C_F);
        let warm0 = db.get_available_fixtures(Path::new(PU));
        note!("then {}", stringify!($t));
        db.analyze_file(PathBuf::from(PC), $t);
        let warm = lines_of(&db.get_available_fixtures(Path::new(PU)));
        clear_caches(&db);
        let cold = lines_of(&db.get_available_fixtures(Path::new(PU)));
        note!("warm={:?} cold={:?}", warm, cold);
        if $kf && crate::kf::C07_NO_VERSION_BUMP_ON_REMOVAL {
            check!("KF:c07.available.warm_is_cold", warm == cold);
        } else {
            check!("c07.available.warm_is_cold", warm == cold);
        }
        std::mem::forget(warm0); std::mem::forget(warm); std::mem::forget(cold); std::mem::forget(db);
    }}; }
    match k { 0 => arm!(T_C_EMPTY, true), 1 => arm!(T_C_G, false), 2 => arm!(T_C_F_LINE, false), _ => arm!(T_C_F_MOVED, false) }
    reach!("c07.available.end");
});
/// @harness id=c07_close_reopen props=C07 unwind=40 mem=14 cap=3000
/// analyse conftest C_F and test module U_T; close (cleanup_file_cache) either file, symbolically; resolution
/// from the test module and its per-file view must be what they were before the close.
hist_arm!(c07_close_reopen, {
    let db = FixtureDatabase::new();
    db.analyze_file(PathBuf::from(PC), T_C_F);
    db.analyze_file(PathBuf::from(PU), T_U_T);
    let before = db.find_closest_definition(Path::new(PU), "f").map(|d| d.line);
    let av_before = lines_of(&db.get_available_fixtures(Path::new(PU)));
    // which document is closed is the arm; the database is rebuilt per arm so that nothing is merged
    std::mem::forget(db);
    let which: bool = any();
    macro_rules! arm { ($p:expr) => {{
        let db = FixtureDatabase::new();
        db.analyze_file(PathBuf::from(PC), T_C_F);
        db.analyze_file(PathBuf::from(PU), T_U_T);
        let _warm = db.get_available_fixtures(Path::new(PU));
        note!("close {}", $p);
        db.cleanup_file_cache(Path::new($p));
        let after = db.find_closest_definition(Path::new(PU), "f").map(|d| d.line);
        let av_after = lines_of(&db.get_available_fixtures(Path::new(PU)));
        check!("c07.close.resolution_unchanged", before == after);
        check!("c07.close.view_unchanged", av_before == av_after);
        std::mem::forget(av_after); std::mem::forget(_warm); std::mem::forget(db);
    }}; }
    if which { arm!(PC) } else { arm!(PU) }
    reach!("c07.close.end");
    std::mem::forget(av_before);
});
