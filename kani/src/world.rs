//! F1 worlds: a small abstract description of a workspace (files, fixture definitions, usages,
//! conftest imports) from which the index is built two ways:
//!   * solver build  (`cfg(kani)`): the public maps of `FixtureDatabase` are filled directly
//!     ("skip initialisation") — the skeleton is concrete, the attributes are symbolic scalars;
//!   * native build: Python files are generated under PLSV_ROOT, written to disk and pushed through
//!     the real `analyze_file` in the world's analysis order (this is the replay path and the
//!     fidelity gate `worlds` compares both builders field by field).
use crate::fixtures::{FixtureDatabase, FixtureDefinition, FixtureScope, FixtureUsage};
use std::path::{Path, PathBuf};
use std::sync::Arc;

pub const U: u8 = 0; // requesting test module            /a/t_u.py
pub const C1: u8 = 1; // nearest conftest                  /a/conftest.py
pub const C0: u8 = 2; // root conftest                     /conftest.py
pub const S: u8 = 3; // sibling conftest (never visible)   /bb/conftest.py
pub const M: u8 = 4; // module next to C1 (visible only if a conftest imports it)  /a/m.py
pub const T2: u8 = 5; // another test module (never visible from U)  /bb/t_o.py
pub const P: u8 = 6; // workspace plugin (pytest11 entry point)      /p/pp.py
pub const V: u8 = 7; // third-party                                   /site-packages/v.py
pub const C2: u8 = 8; // leaf conftest one level below C1          /a/c/conftest.py
pub const U3: u8 = 9; // test module in the leaf directory           /a/c/t_u.py
pub const NFILES: usize = 10;

macro_rules! rooted { ($s:literal) => { concat!(env!("PLSV_ROOT"), $s) }; }
pub const PATHS: [&str; NFILES] = [
    rooted!("/a/t_u.py"), rooted!("/a/conftest.py"), rooted!("/conftest.py"), rooted!("/bb/conftest.py"),
    rooted!("/a/m.py"), rooted!("/bb/t_o.py"), rooted!("/p/pp.py"), rooted!("/site-packages/v.py"),
    rooted!("/a/c/conftest.py"), rooted!("/a/c/t_u.py"),
];
pub const ROOT: &str = env!("PLSV_ROOT");
pub fn path(f: u8) -> &'static str { PATHS[f as usize] }
/// path lengths are pairwise distinct (9,14,12,15,7,10,8,20,16,11 + root), so a path's length identifies the file
/// without a (solver-expensive) component-wise Path comparison
pub fn file_of(p: &Path) -> u8 {
    let n = p.as_os_str().len();
    let mut i = 0u8;
    while (i as usize) < NFILES { if PATHS[i as usize].len() == n { return i; } i += 1; }
    255
}
pub fn is_conftest(f: u8) -> bool { f == C1 || f == C0 || f == S || f == C2 }
/// directory of a file: 0 = root, 1 = /a, 2 = /bb, 4 = /a/c, 3 = elsewhere
pub fn dir_of(f: u8) -> u8 { match f { U | C1 | M => 1, C0 => 0, S | T2 => 2, C2 | U3 => 4, _ => 3 } }

#[derive(Clone)]
pub struct DefS {
    pub file: u8,
    pub name: &'static str,
    pub line: usize,
    pub scope: FixtureScope,
    pub autouse: bool,
    pub deps: Vec<&'static str>,
    /// multi-line signature: parameters on the line after `def name(`
    pub multiline: bool,
}
#[derive(Clone)]
pub struct TestS {
    pub file: u8,
    pub line: usize,
    pub params: Vec<&'static str>,
    /// `@pytest.mark.usefixtures("NAME")` on line-2
    pub usefix: Option<&'static str>,
    /// `@pytest.mark.parametrize("NAME", [1], indirect=True)` on line-1
    pub indirect: Option<&'static str>,
    /// the test function is placed ABOVE the file's fixture definitions (default: below them)
    pub before_defs: bool,
}
#[derive(Clone, Copy, PartialEq)]
pub struct Imp {
    /// the conftest has a statement making M's fixtures available
    pub on: bool,
    /// 0 star import, 1 explicit `import f`, 2 pytest_plugins (native text only; one oracle bit in the solver build)
    pub kind: u8,
}
pub struct World {
    /// analysis (registration) order of files; a file's definitions are registered in line order
    pub order: Vec<u8>,
    pub defs: Vec<DefS>,
    pub tests: Vec<TestS>,
    /// conftest C1 / C0 analysed (present in file_cache); a present conftest may import from M
    pub c1_present: bool,
    pub c0_present: bool,
    pub imp_c1: Imp,
    pub imp_c0: Imp,
    /// `pytestmark = pytest.mark.usefixtures("NAME")` on line 2 of U
    pub pytestmark_u: Option<&'static str>,
    /// the third-party file V was itself discovered through a pytest11 entry point (is_plugin AND is_third_party)
    pub v_is_plugin: bool,
    /// direct builder: put the generated text into file_cache (position queries read it); else empty text
    pub with_text: bool,
}

impl World {
    pub fn new(order: &[u8]) -> World {
        World { order: order.to_vec(), defs: Vec::with_capacity(8), tests: Vec::with_capacity(4),
                c1_present: order.contains(&C1), c0_present: order.contains(&C0),
                imp_c1: Imp { on: false, kind: 0 }, imp_c0: Imp { on: false, kind: 0 }, pytestmark_u: None, v_is_plugin: false, with_text: false }
    }
    pub fn def(&mut self, file: u8, name: &'static str, line: usize) -> usize {
        self.defs.push(DefS { file, name, line, scope: FixtureScope::Function, autouse: false, deps: Vec::new(), multiline: false });
        self.defs.len() - 1
    }
    pub fn test(&mut self, file: u8, line: usize, params: &[&'static str]) {
        self.tests.push(TestS { file, line, params: params.to_vec(), usefix: None, indirect: None, before_defs: false });
    }
    pub fn test_first_line(t: &TestS) -> usize { if t.usefix.is_some() || t.indirect.is_some() { t.line - 2 } else { t.line } }
    pub fn has_file(&self, f: u8) -> bool { self.order.contains(&f) }
    /// definitions of file f in registration (= line) order. No sorting on symbolic lines (that would
    /// make the vector layout symbolic): `layout_ok` requires declaration order == line order per file.
    pub fn defs_of(&self, f: u8) -> Vec<usize> {
        (0..self.defs.len()).filter(|&i| self.defs[i].file == f).collect()
    }
    /// global registration order of definitions
    pub fn registration(&self) -> Vec<usize> {
        let mut v = Vec::with_capacity(self.defs.len());
        for &f in &self.order { v.extend(self.defs_of(f)); }
        v
    }
    /// lines a definition occupies: decorator line-1, def line, (+2 continuation lines when multiline)
    pub fn def_last_line(d: &DefS) -> usize { if d.multiline { d.line + 2 } else { d.line } }
    /// well-formedness the native text generator needs (no overlapping statements in one file)
    /// Per file: statements (tests flagged before_defs, then definitions, then the other tests — each group in declaration order) occupy
    /// strictly ascending, non-overlapping line spans starting at line 3.
    pub fn layout_ok(&self) -> bool {
        for f in 0..NFILES as u8 {
            let mut prev_end: usize = 2; // line 1 = import pytest, line 2 = import statement slot
            for t in self.tests.iter().filter(|t| t.file == f && t.before_defs) {
                if t.line < 3 || Self::test_first_line(t) <= prev_end { return false; }
                prev_end = t.line;
            }
            for d in self.defs.iter().filter(|d| d.file == f) {
                if d.line - 1 <= prev_end { return false; }
                prev_end = Self::def_last_line(d);
            }
            for t in self.tests.iter().filter(|t| t.file == f && !t.before_defs) {
                if t.line < 3 || Self::test_first_line(t) <= prev_end { return false; }
                prev_end = t.line;
            }
        }
        true
    }
}

// ------------------------------------------------------------------------------------------------
// recorded positions (what the analyzer records for the generated text)
pub const NAME_START: usize = 4; // "def f"
pub fn param_span(d: &DefS, k: usize) -> (usize, usize, usize) {
    // (line, start, end) of the k-th parameter of a fixture definition
    let mut col = if d.multiline { 4 } else { 4 + d.name.len() + 1 };
    for i in 0..k { col += d.deps[i].len() + 2; }
    (if d.multiline { d.line + 1 } else { d.line }, col, col + d.deps[k].len())
}
pub fn test_param_span(t: &TestS, k: usize) -> (usize, usize, usize) {
    let mut col = 11; // "def test_x("
    for i in 0..k { col += t.params[i].len() + 2; }
    (t.line, col, col + t.params[k].len())
}

fn cat(parts: &[&str]) -> String {
    let mut n = 0; for p in parts { n += p.len(); }
    let mut s = String::with_capacity(n + 1);
    for p in parts { s.push_str(p); }
    s
}
fn join(items: &[&'static str]) -> String {
    let mut s = String::with_capacity(16);
    for (i, p) in items.iter().enumerate() { if i > 0 { s.push_str(", "); } s.push_str(p); }
    s
}
pub fn def_line_text(d: &DefS) -> Vec<String> {
    let params = join(&d.deps);
    if d.multiline {
        vec![cat(&["def ", d.name, "("]), cat(&["    ", &params]), "): return 1".to_string()]
    } else {
        vec![cat(&["def ", d.name, "(", &params, "): return 1"])]
    }
}
pub fn decorator_text(d: &DefS) -> String {
    let sc = d.scope != FixtureScope::Function;
    match (sc, d.autouse) {
        (false, false) => "@pytest.fixture".to_string(),
        (true, false) => cat(&["@pytest.fixture(scope=\"", d.scope.as_str(), "\")"]),
        (false, true) => "@pytest.fixture(autouse=True)".to_string(),
        (true, true) => cat(&["@pytest.fixture(scope=\"", d.scope.as_str(), "\", autouse=True)"]),
    }
}
pub fn import_text(w: &World, f: u8) -> Option<String> {
    let imp = if f == C1 { w.imp_c1 } else if f == C0 { w.imp_c0 } else { return None };
    if !imp.on { return None; }
    Some(match (f, imp.kind % 3) {
        (C1, 0) => "from .m import *".to_string(),
        (C1, 1) => "from .m import f".to_string(),
        (C1, _) => "pytest_plugins = [\"m\"]".to_string(),
        (_, 0) => "from a.m import *".to_string(),
        (_, 1) => "from a.m import f".to_string(),
        (_, _) => "pytest_plugins = [\"a.m\"]".to_string(),
    })
}
pub const USEFIX_COL: usize = 26; // `@pytest.mark.usefixtures("` / `@pytest.mark.parametrize("`
pub const PYTESTMARK_COL: usize = 38; // `pytestmark = pytest.mark.usefixtures("`
/// The Python source of file f.
pub fn file_text(w: &World, f: u8) -> String {
    let mut lines: Vec<String> = Vec::with_capacity(16);
    lines.push("import pytest".to_string());
    let l2 = match import_text(w, f) {
        Some(t) => t,
        None => match (f, w.pytestmark_u) { (U, Some(n)) => cat(&["pytestmark = pytest.mark.usefixtures(\"", n, "\")"]), _ => "#".to_string() },
    };
    lines.push(l2);
    fn put(lines: &mut Vec<String>, at: usize, s: String) {
        while lines.len() < at { lines.push("#".to_string()); }
        lines[at - 1] = s;
    }
    for d in w.defs.iter().filter(|d| d.file == f) {
        put(&mut lines, d.line - 1, decorator_text(d));
        for (k, t) in def_line_text(d).into_iter().enumerate() { put(&mut lines, d.line + k, t); }
    }
    for t in w.tests.iter().filter(|t| t.file == f) {
        if let Some(n) = t.usefix { put(&mut lines, t.line - 2, cat(&["@pytest.mark.usefixtures(\"", n, "\")"])); }
        if let Some(n) = t.indirect { put(&mut lines, t.line - 1, cat(&["@pytest.mark.parametrize(\"", n, "\", [1], indirect=True)"])); }
        put(&mut lines, t.line, cat(&["def test_x(", &join(&t.params), "): pass"]));
    }
    let mut out = String::with_capacity(256);
    for l in &lines { out.push_str(l); out.push('\n'); }
    out
}

/// set by the builders from `World.v_is_plugin` (mk_def has no world at hand)
pub static mut V_IS_PLUGIN: bool = false;
pub fn mk_def(d: &DefS) -> FixtureDefinition {
    FixtureDefinition {
        name: d.name.to_string(),
        file_path: PathBuf::from(path(d.file)),
        line: d.line,
        end_line: World::def_last_line(d),
        start_char: NAME_START,
        end_char: NAME_START + d.name.len(),
        docstring: None,
        return_type: None,
        is_third_party: d.file == V,
        is_plugin: d.file == P || (d.file == V && unsafe { V_IS_PLUGIN }),
        dependencies: d.deps.iter().filter(|s| **s != "request" && **s != "self").map(|s| s.to_string()).collect(),
        scope: d.scope,
        yield_line: None,
        autouse: d.autouse,
    }
}
pub fn mk_use(file: u8, name: &str, line: usize, s: usize, e: usize) -> FixtureUsage {
    FixtureUsage { name: name.to_string(), file_path: PathBuf::from(path(file)), line, start_char: s, end_char: e }
}

/// All usages of the world in the order the analyzer records them: per file in analysis order; inside
/// a file in statement (line) order; a fixture's parameters in signature order.
pub fn usages_of_file(w: &World, f: u8) -> Vec<FixtureUsage> {
    let mut out: Vec<FixtureUsage> = Vec::with_capacity(8);
    if f == U && import_text(w, f).is_none() {
        if let Some(n) = w.pytestmark_u { out.push(mk_use(f, n, 2, PYTESTMARK_COL, PYTESTMARK_COL + n.len())); }
    }
    for t in w.tests.iter().filter(|t| t.file == f && t.before_defs) {
        let v = &mut out;
        if let Some(n) = t.usefix { v.push(mk_use(f, n, t.line - 2, USEFIX_COL, USEFIX_COL + n.len())); }
        if let Some(n) = t.indirect { v.push(mk_use(f, n, t.line - 1, USEFIX_COL, USEFIX_COL + n.len())); }
        for k in 0..t.params.len() {
            if t.params[k] == "self" { continue; }
            let (l, s, e) = test_param_span(t, k);
            v.push(mk_use(f, t.params[k], l, s, e));
        }
    }
    for d in w.defs.iter().filter(|d| d.file == f) {
        let v = &mut out;
        for k in 0..d.deps.len() {
            if d.deps[k] == "request" || d.deps[k] == "self" { continue; }
            let (l, s, e) = param_span(d, k);
            v.push(mk_use(f, d.deps[k], l, s, e));
        }
    }
    for t in w.tests.iter().filter(|t| t.file == f && !t.before_defs) {
        let v = &mut out;
        if let Some(n) = t.usefix { v.push(mk_use(f, n, t.line - 2, USEFIX_COL, USEFIX_COL + n.len())); }
        if let Some(n) = t.indirect { v.push(mk_use(f, n, t.line - 1, USEFIX_COL, USEFIX_COL + n.len())); }
        for k in 0..t.params.len() {
            if t.params[k] == "self" { continue; }
            let (l, s, e) = test_param_span(t, k);
            v.push(mk_use(f, t.params[k], l, s, e));
        }
    }
    out
}

/// What to put into the index besides `definitions`.
#[derive(Clone, Copy)]
pub struct Fill { pub usages: bool, pub file_cache: bool, pub file_definitions: bool }
pub const DEFS_ONLY: Fill = Fill { usages: false, file_cache: true, file_definitions: false };
pub const WITH_USAGES: Fill = Fill { usages: true, file_cache: true, file_definitions: false };
pub const FULL: Fill = Fill { usages: true, file_cache: true, file_definitions: true };
pub const DEFS_AND_FILE_DEFS: Fill = Fill { usages: false, file_cache: true, file_definitions: true };

/// Solver-side import oracle (the real `is_fixture_imported_in_file` is replaced by this table).
pub static mut IMP_C1: bool = false;
pub static mut IMP_C0: bool = false;
pub static mut IMP_NAME: &str = "f";
pub fn stub_is_imported(_db: &FixtureDatabase, name: &str, p: &Path) -> bool {
    let n = p.as_os_str().len();
    let hit = if n == PATHS[C1 as usize].len() { unsafe { IMP_C1 } } else if n == PATHS[C0 as usize].len() { unsafe { IMP_C0 } } else { false };
    hit && name == unsafe { IMP_NAME }
}

/// key-insertion order of the name-keyed maps: names in order of first registration, unless `keys` given.
fn name_order(w: &World, reg: &[usize], keys: Option<&[&'static str]>) -> Vec<&'static str> {
    let mut names: Vec<&'static str> = Vec::with_capacity(4);
    if let Some(k) = keys { for n in k { if !names.contains(n) { names.push(n); } } }
    for &i in reg { if !names.contains(&w.defs[i].name) { names.push(w.defs[i].name); } }
    names
}

#[cfg(kani)]
pub fn build(w: &World, fill: Fill) -> FixtureDatabase { build_direct(w, fill, None) }
#[cfg(not(kani))]
pub fn build(w: &World, _fill: Fill) -> FixtureDatabase { build_native(w) }

/// Direct construction of the index state the analyzer leaves behind for this world.
pub fn build_direct(w: &World, fill: Fill, keys: Option<&[&'static str]>) -> FixtureDatabase {
    unsafe { V_IS_PLUGIN = w.v_is_plugin; }
    let db = FixtureDatabase::new();
    let reg = w.registration();
    for name in name_order(w, &reg, keys) {
        let mut v: Vec<FixtureDefinition> = Vec::with_capacity(8);
        for &i in &reg { if w.defs[i].name == name { v.push(mk_def(&w.defs[i])); } }
        if !v.is_empty() { db.definitions.insert(name.to_string(), v); }
    }
    if fill.file_cache {
        // membership is what the resolver consults ("conftest exists"); text is only read by position queries
        for &f in &w.order {
            let text = if w.with_text { file_text(w, f) } else { String::new() };
            db.file_cache.insert(PathBuf::from(path(f)), Arc::new(text));
        }
    }
    if fill.usages {
        for &f in &w.order {
            let us = usages_of_file(w, f);
            if us.is_empty() { continue; }
            for u in &us {
                db.usage_by_fixture.entry(u.name.clone()).or_default().push((PathBuf::from(path(f)), u.clone()));
            }
            db.usages.insert(PathBuf::from(path(f)), us);
        }
    }
    if fill.file_definitions {
        for &f in &w.order {
            let ds = w.defs_of(f);
            if ds.is_empty() { continue; }
            let mut set = crate::coll::HashSet::new();
            for i in ds { set.insert(w.defs[i].name.to_string()); }
            db.file_definitions.insert(PathBuf::from(path(f)), set);
        }
    }
    unsafe { IMP_C1 = w.imp_c1.on && w.c1_present; IMP_C0 = w.imp_c0.on && w.c0_present; }
    db
}

/// Native construction: generated Python on disk -> the real `analyze_file`, in the world's order.
#[cfg(not(kani))]
pub fn build_native(w: &World) -> FixtureDatabase {
    assert!(!ROOT.is_empty(), "native build needs PLSV_ROOT");
    let _ = std::fs::remove_dir_all(ROOT);
    for d in ["/a/c", "/bb", "/p", "/site-packages"] { std::fs::create_dir_all(format!("{}{}", ROOT, d)).unwrap(); }
    let db = FixtureDatabase::new();
    unsafe { V_IS_PLUGIN = w.v_is_plugin; }
    if w.has_file(P) { db.plugin_fixture_files.insert(PathBuf::from(path(P)), ()); }
    if w.has_file(V) && w.v_is_plugin { db.plugin_fixture_files.insert(PathBuf::from(path(V)), ()); }
    for &f in &w.order { std::fs::write(path(f), file_text(w, f)).unwrap(); }
    for &f in &w.order { db.analyze_file(PathBuf::from(path(f)), &file_text(w, f)); }
    db
}
