//! Fidelity gates (native only): what the solver build trusts, checked against the real thing.
use crate::fixtures::{FixtureDatabase, FixtureScope};
use crate::world::*;
use std::path::{Path, PathBuf};

pub fn run(name: &str) -> bool {
    match name {
        "worlds" => worlds(),
        "oracle" => oracle(),
        _ => { eprintln!("unknown gate {}", name); false }
    }
}

fn sample_worlds() -> Vec<(&'static str, World)> {
    let mut v = Vec::new();
    // every usage kind
    let mut w = World::new(&[C0, U]);
    w.def(C0, "fx1", 4);
    let g = w.def(U, "g", 4); w.defs[g].deps = vec!["fx1"];
    w.test(U, 8, &["fx1"]); w.tests[0].usefix = Some("fx1"); w.tests[0].indirect = Some("fx1");
    w.pytestmark_u = Some("fx1"); w.with_text = true;
    v.push(("usage kinds", w));
    // scopes, autouse, deps, multiline, request
    let mut w = World::new(&[C1, C0, U, S, M, T2, P, V]);
    let a = w.def(C1, "f", 5); w.defs[a].deps = vec!["f", "g"]; w.defs[a].scope = FixtureScope::Module; w.defs[a].multiline = true;
    let b = w.def(C1, "g", 12); w.defs[b].autouse = true; w.defs[b].scope = FixtureScope::Session;
    let c = w.def(C0, "f", 4); w.defs[c].deps = vec!["request", "h"];
    w.def(C0, "h", 9);
    let d = w.def(U, "f", 4); w.defs[d].deps = vec!["f"];
    w.def(U, "f", 7);
    w.test(U, 20, &["f", "g", "h"]);
    w.def(S, "f", 4); w.def(M, "f", 7); w.def(T2, "f", 4); w.test(T2, 9, &["f"]);
    let e = w.def(P, "f", 4); w.defs[e].scope = FixtureScope::Package;
    let f = w.def(V, "f", 4); w.defs[f].scope = FixtureScope::Class; w.defs[f].autouse = true;
    w.with_text = true;
    v.push(("all files, scopes, multiline", w));
    for k in 0..3u8 {
        let mut w = World::new(&[S, M, C1, C0, U]);
        w.def(S, "f", 4); w.def(M, "f", 5); w.test(U, 5, &["f"]);
        w.imp_c1 = Imp { on: true, kind: k };
        v.push(("C1 imports M", w));
        let mut w = World::new(&[M, C0, U]);
        w.def(M, "f", 4); w.test(U, 5, &["f"]);
        w.imp_c0 = Imp { on: true, kind: k };
        v.push(("C0 imports a.m", w));
    }
    v
}

fn worlds() -> bool {
    let mut ok = true;
    for (label, w) in sample_worlds() {
        if !w.layout_ok() { eprintln!("gate worlds: sample '{}' violates layout_ok", label); ok = false; continue; }
        let d = build_direct(&w, FULL, None);
        let n = build_native(&w);
        // definitions: same keys, same vectors (all fields, registration order)
        for e in n.definitions.iter() {
            let dv = d.definitions.get(e.key()).map(|x| x.value().clone());
            if dv.as_ref() != Some(e.value()) { eprintln!("gate worlds [{}]: definitions[{}] differ", label, e.key());
                if let Some(dv) = &dv { for (a, b) in dv.iter().zip(e.value().iter()) { if a != b { eprintln!("  direct {:?}\n  native {:?}", a, b); } } } ok = false; }
        }
        if d.definitions.len() != n.definitions.len() { eprintln!("gate worlds [{}]: #names differ", label); ok = false; }
        let fmt_u = |u: &crate::fixtures::FixtureUsage| (u.name.clone(), u.file_path.clone(), u.line, u.start_char, u.end_char);
        for e in n.usages.iter() {
            let nv: Vec<_> = e.value().iter().map(fmt_u).collect();
            let dv: Option<Vec<_>> = d.usages.get(e.key()).map(|x| x.value().iter().map(fmt_u).collect());
            if dv.as_ref() != Some(&nv) { eprintln!("gate worlds [{}]: usages[{:?}] differ:\n direct {:?}\n native {:?}", label, e.key(), dv, nv); ok = false; }
        }
        if d.usages.len() != n.usages.len() { eprintln!("gate worlds [{}]: #usage files differ {} vs {}", label, d.usages.len(), n.usages.len()); ok = false; }
        for e in n.usage_by_fixture.iter() {
            let nv: Vec<_> = e.value().iter().map(|(p, u)| (p.clone(), fmt_u(u))).collect();
            let dv: Option<Vec<_>> = d.usage_by_fixture.get(e.key()).map(|x| x.value().iter().map(|(p, u)| (p.clone(), fmt_u(u))).collect());
            if dv.as_ref() != Some(&nv) { eprintln!("gate worlds [{}]: usage_by_fixture[{}] differ:\n direct {:?}\n native {:?}", label, e.key(), dv, nv); ok = false; }
        }
        if d.usage_by_fixture.len() != n.usage_by_fixture.len() { eprintln!("gate worlds [{}]: #usage_by_fixture keys differ", label); ok = false; }
        for e in n.file_definitions.iter() {
            let dv = d.file_definitions.get(e.key()).map(|x| x.value().clone());
            if dv.as_ref() != Some(e.value()) { eprintln!("gate worlds [{}]: file_definitions[{:?}] differ", label, e.key()); ok = false; }
        }
        if d.file_definitions.len() != n.file_definitions.len() { eprintln!("gate worlds [{}]: #file_definitions differ", label); ok = false; }
        for e in n.file_cache.iter() {
            match d.file_cache.get(e.key()) {
                None => { eprintln!("gate worlds [{}]: file_cache lacks {:?}", label, e.key()); ok = false; }
                Some(t) => if w.with_text && t.value() != e.value() { eprintln!("gate worlds [{}]: text differs for {:?}", label, e.key()); ok = false; }
            }
        }
        if d.file_cache.len() != n.file_cache.len() { eprintln!("gate worlds [{}]: #file_cache differ", label); ok = false; }
        // import oracle == real import walk
        for (c, imp) in [(C1, w.imp_c1), (C0, w.imp_c0)] {
            if !w.has_file(c) { continue; }
            let real = n.is_fixture_imported_in_file("f", Path::new(path(c)));
            let oracle = imp.on && w.defs.iter().any(|d| d.file == M && d.name == "f");
            if real != oracle { eprintln!("gate worlds [{}]: import oracle {} != real {} for {}", label, oracle, real, path(c)); ok = false; }
        }
    }
    if ok { println!("gate worlds: ok"); }
    ok
}

/// every text of the version table: the oracle's answer == the real parser's answer
fn oracle() -> bool {
    let mut ok = true;
    for (name, text, parses) in crate::oracle::ALL.iter() {
        let real = rustpython_parser::parse(text, rustpython_parser::Mode::Module, "");
        let orc = crate::oracle::oracle_parse(text, rustpython_parser::Mode::Module, "");
        match (real, orc) {
            (Ok(a), Ok(b)) => if a != b { eprintln!("gate oracle: AST differs for {}", name); ok = false; },
            (Err(_), Err(_)) => {}
            _ => { eprintln!("gate oracle: parse success differs for {}", name); ok = false; }
        }
        let _ = parses;
    }
    if ok { println!("gate oracle: ok ({} texts)", crate::oracle::ALL.len()); }
    ok
}
