//! Fidelity gates (native only): things the solver build trusts, checked against the real thing.
pub fn run(name: &str) -> bool {
    match name {
        _ => { eprintln!("unknown gate {}", name); false }
    }
}
