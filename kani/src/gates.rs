//! Fidelity gates (native only): what the solver build trusts, checked against the real thing.
use crate::fixtures::{FixtureDatabase, FixtureScope};
use crate::world::*;
use std::path::{Path, PathBuf};

pub fn run(name: &str) -> bool {
    match name {
        "worlds" => worlds(),
        "oracle" => oracle(),
        "seed" => seed(),
        _ => { eprintln!("unknown gate {}", name); false }
    }
}

fn sample_worlds() -> Vec<(&'static str, World)> {
    let mut v = Vec::new();
    // every usage kind
    let mut w = World::new(&[C0, U]);
    w.def(C0, "fx1", 4);
    let g = w.def(U, "g", 4); w.defs[g].deps = vec!["fx1"];
    w.test(U, 8, &["fx1"]); w.tests[0].usefix = Some("fx1"); w.tests[0].indirect = Some("fx1");
    w.pytestmark_u = Some("fx1"); w.with_text = true;
    v.push(("usage kinds", w));
    // scopes, autouse, deps, multiline, request
    let mut w = World::new(&[C1, C0, U, S, M, T2, P, V]);
    let a = w.def(C1, "f", 5); w.defs[a].deps = vec!["f", "g"]; w.defs[a].scope = FixtureScope::Module; w.defs[a].multiline = true;
    let b = w.def(C1, "g", 12); w.defs[b].autouse = true; w.defs[b].scope = FixtureScope::Session;
    let c = w.def(C0, "f", 4); w.defs[c].deps = vec!["request", "h"];
    w.def(C0, "h", 9);
    let d = w.def(U, "f", 4); w.defs[d].deps = vec!["f"];
    w.def(U, "f", 7);
    w.test(U, 20, &["f", "g", "h"]);
    w.def(S, "f", 4); w.def(M, "f", 7); w.def(T2, "f", 4); w.test(T2, 9, &["f"]);
    let e = w.def(P, "f", 4); w.defs[e].scope = FixtureScope::Package;
    let f = w.def(V, "f", 4); w.defs[f].scope = FixtureScope::Class; w.defs[f].autouse = true;
    w.with_text = true;
    v.push(("all files, scopes, multiline", w));
    for k in 0..3u8 {
        let mut w = World::new(&[S, M, C1, C0, U]);
        w.def(S, "f", 4); w.def(M, "f", 5); w.test(U, 5, &["f"]);
        w.imp_c1 = Imp { on: true, kind: k };
        v.push(("C1 imports M", w));
        let mut w = World::new(&[M, C0, U]);
        w.def(M, "f", 4); w.test(U, 5, &["f"]);
        w.imp_c0 = Imp { on: true, kind: k };
        v.push(("C0 imports a.m", w));
    }
    v
}

fn worlds() -> bool {
    let mut ok = true;
    for (label, w) in sample_worlds() {
        if !w.layout_ok() { eprintln!("gate worlds: sample '{}' violates layout_ok", label); ok = false; continue; }
        let d = build_direct(&w, FULL, None);
        let n = build_native(&w);
        // definitions: same keys, same vectors (all fields, registration order)
        for e in n.definitions.iter() {
            let dv = d.definitions.get(e.key()).map(|x| x.value().clone());
            if dv.as_ref() != Some(e.value()) { eprintln!("gate worlds [{}]: definitions[{}] differ", label, e.key());
                if let Some(dv) = &dv { for (a, b) in dv.iter().zip(e.value().iter()) { if a != b { eprintln!("  direct {:?}\n  native {:?}", a, b); } } } ok = false; }
        }
        if d.definitions.len() != n.definitions.len() { eprintln!("gate worlds [{}]: #names differ", label); ok = false; }
        let fmt_u = |u: &crate::fixtures::FixtureUsage| (u.name.clone(), u.file_path.clone(), u.line, u.start_char, u.end_char);
        for e in n.usages.iter() {
            let nv: Vec<_> = e.value().iter().map(fmt_u).collect();
            let dv: Option<Vec<_>> = d.usages.get(e.key()).map(|x| x.value().iter().map(fmt_u).collect());
            if dv.as_ref() != Some(&nv) { eprintln!("gate worlds [{}]: usages[{:?}] differ:\n direct {:?}\n native {:?}", label, e.key(), dv, nv); ok = false; }
        }
        if d.usages.len() != n.usages.len() { eprintln!("gate worlds [{}]: #usage files differ {} vs {}", label, d.usages.len(), n.usages.len()); ok = false; }
        for e in n.usage_by_fixture.iter() {
            let nv: Vec<_> = e.value().iter().map(|(p, u)| (p.clone(), fmt_u(u))).collect();
            let dv: Option<Vec<_>> = d.usage_by_fixture.get(e.key()).map(|x| x.value().iter().map(|(p, u)| (p.clone(), fmt_u(u))).collect());
            if dv.as_ref() != Some(&nv) { eprintln!("gate worlds [{}]: usage_by_fixture[{}] differ:\n direct {:?}\n native {:?}", label, e.key(), dv, nv); ok = false; }
        }
        if d.usage_by_fixture.len() != n.usage_by_fixture.len() { eprintln!("gate worlds [{}]: #usage_by_fixture keys differ", label); ok = false; }
        for e in n.file_definitions.iter() {
            let dv = d.file_definitions.get(e.key()).map(|x| x.value().clone());
            if dv.as_ref() != Some(e.value()) { eprintln!("gate worlds [{}]: file_definitions[{:?}] differ", label, e.key()); ok = false; }
        }
        if d.file_definitions.len() != n.file_definitions.len() { eprintln!("gate worlds [{}]: #file_definitions differ", label); ok = false; }
        for e in n.file_cache.iter() {
            match d.file_cache.get(e.key()) {
                None => { eprintln!("gate worlds [{}]: file_cache lacks {:?}", label, e.key()); ok = false; }
                Some(t) => if w.with_text && t.value() != e.value() { eprintln!("gate worlds [{}]: text differs for {:?}", label, e.key()); ok = false; }
            }
        }
        if d.file_cache.len() != n.file_cache.len() { eprintln!("gate worlds [{}]: #file_cache differ", label); ok = false; }
        // import oracle == real import walk
        for (c, imp) in [(C1, w.imp_c1), (C0, w.imp_c0)] {
            if !w.has_file(c) { continue; }
            let real = n.is_fixture_imported_in_file("f", Path::new(path(c)));
            let oracle = imp.on && w.defs.iter().any(|d| d.file == M && d.name == "f");
            if real != oracle { eprintln!("gate worlds [{}]: import oracle {} != real {} for {}", label, oracle, real, path(c)); ok = false; }
        }
    }
    if ok { println!("gate worlds: ok"); }
    ok
}

/// every text of the version table: the oracle's answer == the real parser's answer
fn oracle() -> bool {
    let mut ok = true;
    for (name, text, parses) in crate::oracle::ALL.iter() {
        let real = rustpython_parser::parse(text, rustpython_parser::Mode::Module, "");
        let orc = crate::oracle::oracle_parse(text, rustpython_parser::Mode::Module, "");
        match (real, orc) {
            (Ok(a), Ok(b)) => if a != b { eprintln!("gate oracle: AST differs for {}", name); ok = false; },
            (Err(_), Err(_)) => {}
            _ => { eprintln!("gate oracle: parse success differs for {}", name); ok = false; }
        }
        let _ = parses;
    }
    if ok { println!("gate oracle: ok ({} texts)", crate::oracle::ALL.len()); }
    ok
}

/// seed_file_state(fresh data) == one real analyze_file on an empty index, for every table text
fn seed() -> bool {
    use crate::h_hist::{seed_file_state, file_state_is, PC, PU};
    let mut ok = true;
    for (name, text, _parses) in crate::oracle::ALL.iter() {
        let p = if name.starts_with("C_") || name.starts_with("W_") || name.starts_with("D_U_CONF") { PC } else { PU };
        let real = FixtureDatabase::new();
        real.analyze_file(PathBuf::from(p), text);
        // the fresh data of this text, read back from the real analysis (the generated fresh_* functions are the same
        // data, produced by the same call in tools/astgen.py)
        let mut defs = Vec::new();
        for e in real.definitions.iter() { for d in e.value().iter() { defs.push(d.clone()); } }
        defs.sort_by_key(|d| d.line);
        let mut names: Vec<String> = real.file_definitions.get(&PathBuf::from(p)).map(|s| s.value().iter().cloned().collect()).unwrap_or_default();
        names.sort();
        let mut imports: Vec<String> = real.imports.get(&PathBuf::from(p)).map(|s| s.value().iter().cloned().collect()).unwrap_or_default();
        imports.sort();
        let fr = crate::oracle::Fresh {
            defs, usages: real.usages.get(&PathBuf::from(p)).map(|u| u.value().clone()).unwrap_or_default(),
            undeclared: real.get_undeclared_fixtures(Path::new(p)), imports, def_names: names,
            has_imports_entry: real.imports.contains_key(&PathBuf::from(p)),
        };
        let seeded = FixtureDatabase::new();
        seed_file_state(&seeded, p, text, &fr);
        if !file_state_is(&seeded, p, &fr, true) { eprintln!("gate seed: seeded state differs from its own data for {}", name); ok = false; }
        if !file_state_is(&real, p, &fr, true) { eprintln!("gate seed: real state differs for {}", name); ok = false; }
        // beyond the per-file records: caches and version counter the analysis leaves behind
        let v1 = real.definitions_version.load(std::sync::atomic::Ordering::SeqCst);
        let v2 = seeded.definitions_version.load(std::sync::atomic::Ordering::SeqCst);
        if v1 != v2 { eprintln!("gate seed: definitions_version {} vs {} for {}", v1, v2, name); ok = false; }
        if real.line_index_cache.contains_key(&PathBuf::from(p)) != seeded.line_index_cache.contains_key(&PathBuf::from(p)) {
            eprintln!("gate seed: line_index_cache presence differs for {}", name); ok = false;
        }
        if real.file_cache.get(&PathBuf::from(p)).map(|t| t.value().as_str().to_string()) != seeded.file_cache.get(&PathBuf::from(p)).map(|t| t.value().as_str().to_string()) {
            eprintln!("gate seed: file_cache differs for {}", name); ok = false;
        }
        let und_r = real.undeclared_fixtures.get(&PathBuf::from(p)).map(|u| u.value().len());
        let und_s = seeded.undeclared_fixtures.get(&PathBuf::from(p)).map(|u| u.value().len());
        if und_r != und_s { eprintln!("gate seed: undeclared entry differs for {} ({:?} vs {:?})", name, und_r, und_s); ok = false; }
    }
    if ok { println!("gate seed: ok ({} texts)", crate::oracle::ALL.len()); }
    ok
}
