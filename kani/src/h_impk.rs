//! Module-resolution and classification kernels (C14): `resolve_module_to_file` (relative dots, upward search,
//! site-packages and editable fallbacks, package vs module targets) and `is_editable_install_third_party`.
//!
//! The import CLOSURE (scan_imported_fixture_modules, get_imported_fixtures: parser + file contents at every node)
//! stays out of solver reach (DESIGN §4 C14); these harnesses decide the single STEP every closure walk is made of:
//! "which file does this import statement denote". The importing file and the dotted module string are concrete per
//! harness; what is symbolic is the FILE SYSTEM: one existence bit per candidate path (module file, package
//! `__init__.py`, decoys one level up / down, the same names under site-packages and an editable source root), one
//! "is a directory" bit per intermediate package, and one "is in the editor cache" bit where the code consults it.
//! `Path::exists` / `Path::is_dir` are stubbed by a table lookup over those bits (solver build); natively the very
//! same harness creates exactly those files below PLSV_ROOT and calls the unstubbed code.
//! Reference: Python's import rules written out per harness (`want_*`), nothing shared with the repository's code.
use crate::fixtures::{EditableInstall, FixtureDatabase};
use crate::kx::{any, assume};
use std::path::{Path, PathBuf};
use std::sync::Arc;

macro_rules! rooted { ($s:literal) => { concat!(env!("PLSV_ROOT"), $s) }; }

#[derive(Clone, Copy)]
pub struct Ent { pub path: &'static str, pub dir: bool, pub on: bool }
pub const NONE_ENT: Ent = Ent { path: "", dir: false, on: false };
pub static mut FS: [Ent; 10] = [NONE_ENT; 10];
pub static mut FS_N: usize = 0;

fn fs_lookup(p: &Path) -> Option<Ent> {
    let b = p.as_os_str().as_encoded_bytes();
    let n = unsafe { FS_N };
    let mut i = 0;
    while i < n {
        let e = unsafe { FS[i] };
        let eb = e.path.as_bytes();
        if eb.len() == b.len() {
            let mut same = true;
            let mut k = 0;
            while k < b.len() { if b[k] != eb[k] { same = false; break; } k += 1; }
            if same { return Some(e); }
        }
        i += 1;
    }
    None
}
/// stand-in for `Path::exists` (solver build): the table's bit, `false` for every path not in the table
pub fn fs_exists(p: &Path) -> bool { match fs_lookup(p) { Some(e) => e.on, None => false } }
/// stand-in for `Path::is_dir` (solver build)
pub fn fs_is_dir(p: &Path) -> bool { match fs_lookup(p) { Some(e) => e.on && e.dir, None => false } }

/// install the table; natively: materialise it on disk below PLSV_ROOT (files are empty, directories are created
/// for every `dir` entry that is on and for the parents of every file that is on)
fn fs_install(ents: &[Ent]) {
    unsafe {
        let mut i = 0;
        while i < ents.len() { FS[i] = ents[i]; i += 1; }
        FS_N = ents.len();
    }
    #[cfg(not(kani))]
    {
        let root = env!("PLSV_ROOT");
        assert!(!root.is_empty(), "native build needs PLSV_ROOT");
        let _ = std::fs::remove_dir_all(root);
        std::fs::create_dir_all(root).unwrap();
        for e in ents {
            if !e.on { continue; }
            if e.dir { std::fs::create_dir_all(e.path).unwrap(); }
            else {
                std::fs::create_dir_all(Path::new(e.path).parent().unwrap()).unwrap();
                std::fs::write(e.path, "").unwrap();
            }
        }
    }
}
/// stand-in for `alloc::fmt::format` (solver build). The only `format!` these harnesses reach in repository code is
/// `format!("{}.py", part)` in `find_module_file` with `part` = the LAST component of the harness's module string;
/// the formatter's type-erased calls leave the String's length non-constant for CBMC (every later `Path` scan then
/// runs to the unwind bound: 1499 unwindings of `parse_next_component_back`, no verdict in 900 s). The stand-in
/// returns that text directly. A change to the format string itself is therefore seen by the native replay only;
/// a wrong answer of the stand-in can only produce a counterexample that does not reproduce natively (exit 2).
pub static mut FMT_LAST_PART: &str = "m";
pub fn fmt_last_part_py(_a: std::fmt::Arguments<'_>) -> String {
    let p = unsafe { FMT_LAST_PART };
    let mut o = String::with_capacity(p.len() + 3);
    o.push_str(p);
    o.push_str(".py");
    o
}

fn f(path: &'static str, on: bool) -> Ent { Ent { path, dir: false, on } }
fn d(path: &'static str, on: bool) -> Ent { Ent { path, dir: true, on } }

fn st(t: &str) -> String { let mut o = String::with_capacity(t.len()); o.push_str(t); o }
/// the answer as an index into the harness's candidate list (255 = none, 254 = a path outside the list)
fn which(got: &Option<PathBuf>, cands: &[&'static str]) -> u8 {
    match got {
        None => 255,
        Some(p) => {
            let b = p.as_os_str().as_encoded_bytes();
            let mut i = 0;
            while i < cands.len() {
                let c = cands[i].as_bytes();
                if c.len() == b.len() {
                    let mut same = true;
                    let mut k = 0;
                    while k < b.len() { if b[k] != c[k] { same = false; break; } k += 1; }
                    if same { return i as u8; }
                }
                i += 1;
            }
            254
        }
    }
}
/// warm the canonical-path cache for `p` (identity, as `canonicalize` answers for an already canonical path): keeps
/// the cache's contents independent of which branch a symbolic existence bit selects (a container whose contents
/// depend on symbolic bits is what CBMC cannot fold: the upward search did not finish in 15 min without this)
fn warm(db: &FixtureDatabase, p: &'static str) { db.canonical_path_cache.insert(PathBuf::from(p), PathBuf::from(p)); }
fn cache(db: &FixtureDatabase, p: &'static str) { db.file_cache.insert(PathBuf::from(p), Arc::new(String::new())); }

const A_CONF: &str = rooted!("/a/conftest.py");
const R_CONF: &str = rooted!("/conftest.py");
const R_P_DIR: &str = rooted!("/p");
const R_P_M_PY: &str = rooted!("/p/m.py");
const R_P_M_INIT: &str = rooted!("/p/m/__init__.py");
const A_M_PY: &str = rooted!("/a/m.py");
const A_M_DIR: &str = rooted!("/a/m");
const A_M_INIT: &str = rooted!("/a/m/__init__.py");
const R_M_PY: &str = rooted!("/m.py");
const R_M_INIT: &str = rooted!("/m/__init__.py");
const A_INIT: &str = rooted!("/a/__init__.py");
const R_INIT: &str = rooted!("/__init__.py");
const AB_CONF: &str = rooted!("/a/b/conftest.py");
const AB_M_PY: &str = rooted!("/a/b/m.py");
const AB_INIT: &str = rooted!("/a/b/__init__.py");
const A_P_DIR: &str = rooted!("/a/p");
const A_P_M_PY: &str = rooted!("/a/p/m.py");
const A_P_M_INIT: &str = rooted!("/a/p/m/__init__.py");
const A_P_PY: &str = rooted!("/a/p.py");
const SP_DIR: &str = rooted!("/sp");
const SP_M_PY: &str = rooted!("/sp/m.py");
const SP_M_INIT: &str = rooted!("/sp/m/__init__.py");
const ED_DIR: &str = rooted!("/e");
const ED_M_PY: &str = rooted!("/e/m.py");
const ED_M_INIT: &str = rooted!("/e/m/__init__.py");
const AB_M_INIT: &str = rooted!("/a/b/m/__init__.py");

fn rel_single_dot(c_py: bool) {
    let e_py: bool = any(); let e_pkg: bool = any(); let e_up: bool = any(); let e_up_pkg: bool = any();
    fs_install(&[f(A_M_PY, e_py), d(A_M_DIR, e_pkg), f(A_M_INIT, e_pkg), f(R_M_PY, e_up), f(R_M_INIT, e_up_pkg)]);
    let db = FixtureDatabase::new();
    if c_py { cache(&db, A_M_PY); }
    let got = db.resolve_module_to_file(".m", Path::new(A_CONF));
    let w = which(&got, &[A_M_PY, A_M_INIT, R_M_PY, R_M_INIT]);
    note!("exists: a/m.py={} a/m/__init__.py={} m.py={} m/__init__.py={} cached a/m.py={} -> {:?}", e_py, e_pkg, e_up, e_up_pkg, c_py, got);
    let has_mod = e_py || c_py;
    check!("c14.rel1.never_parent_dir", w != 2 && w != 3 && w != 254);
    check!("c14.rel1.none_iff_absent", (w == 255) == (!has_mod && !e_pkg));
    check!("c14.rel1.module_when_only_module", !(has_mod && !e_pkg) || w == 0);
    check!("c14.rel1.package_when_only_package", !(!has_mod && e_pkg) || w == 1);
    if crate::kf::C14_MODULE_SHADOWS_PACKAGE {
        // both a/m.py and a/m/ exist: Python imports the PACKAGE (FileFinder looks for the directory first)
        check!("KF:c14.rel1.package_wins", !(has_mod && e_pkg) || w == 1);
    } else {
        check!("c14.rel1.package_wins", !(has_mod && e_pkg) || w == 1);
    }
    std::mem::forget(got); std::mem::forget(db);
}
/// @harness id=c14_rel_single_dot props=C14 tier=quick unwind=24 mem=8 cap=900
/// `from .m import *` in /a/conftest.py. Symbolic: whether /a/m.py, /a/m/__init__.py, /m.py and /m/__init__.py exist
/// (16 file systems). The import denotes a file in the importing file's OWN directory (module file or package), never
/// the same name one level up, and nothing when neither exists.
#[cfg_attr(kani, kani::proof)]
#[cfg_attr(kani, kani::stub(std::path::Path::exists, crate::h_impk::fs_exists))]
#[cfg_attr(kani, kani::stub(std::path::Path::is_dir, crate::h_impk::fs_is_dir))]
#[cfg_attr(kani, kani::stub(alloc::fmt::format, crate::h_impk::fmt_last_part_py))]
#[cfg_attr(kani, kani::stub(std::path::Path::canonicalize, crate::stubs::canonicalize_err))]
#[cfg_attr(kani, kani::stub(core::slice::memchr::memchr, crate::stubs::memchr_bytewise))]
pub fn c14_rel_single_dot() {
    rel_single_dot(false);
    reach!("c14_rel_single_dot.end");
}
/// @harness id=c14_rel_single_dot_cached props=C14 tier=quick unwind=24 mem=8 cap=900
/// The same with /a/m.py open in the editor (present in file_cache, whether or not it exists on disk): an open buffer
/// counts as the module file.
#[cfg_attr(kani, kani::proof)]
#[cfg_attr(kani, kani::stub(std::path::Path::exists, crate::h_impk::fs_exists))]
#[cfg_attr(kani, kani::stub(std::path::Path::is_dir, crate::h_impk::fs_is_dir))]
#[cfg_attr(kani, kani::stub(alloc::fmt::format, crate::h_impk::fmt_last_part_py))]
#[cfg_attr(kani, kani::stub(std::path::Path::canonicalize, crate::stubs::canonicalize_err))]
#[cfg_attr(kani, kani::stub(core::slice::memchr::memchr, crate::stubs::memchr_bytewise))]
pub fn c14_rel_single_dot_cached() {
    rel_single_dot(true);
    reach!("c14_rel_single_dot_cached.end");
}

/// @harness id=c14_rel_double_dot props=C14 tier=quick unwind=24 mem=8 cap=900
/// `from ..m import *` in /a/b/conftest.py. Symbolic: existence of /a/b/m.py (decoy, own directory), /a/m.py,
/// /a/m/__init__.py, /m.py (decoy, two levels up). Two dots = the PARENT package: /a/m.py or /a/m/__init__.py, else none.
#[cfg_attr(kani, kani::proof)]
#[cfg_attr(kani, kani::stub(std::path::Path::exists, crate::h_impk::fs_exists))]
#[cfg_attr(kani, kani::stub(std::path::Path::is_dir, crate::h_impk::fs_is_dir))]
#[cfg_attr(kani, kani::stub(alloc::fmt::format, crate::h_impk::fmt_last_part_py))]
#[cfg_attr(kani, kani::stub(std::path::Path::canonicalize, crate::stubs::canonicalize_err))]
#[cfg_attr(kani, kani::stub(core::slice::memchr::memchr, crate::stubs::memchr_bytewise))]
pub fn c14_rel_double_dot() {
    let e_own: bool = any(); let e_py: bool = any(); let e_pkg: bool = any(); let e_top: bool = any();
    assume(!(e_py && e_pkg)); // module-vs-package precedence is the subject of c14_rel_single_dot
    fs_install(&[f(AB_M_PY, e_own), f(A_M_PY, e_py), d(A_M_DIR, e_pkg), f(A_M_INIT, e_pkg), f(R_M_PY, e_top)]);
    let db = FixtureDatabase::new();
    let got = db.resolve_module_to_file("..m", Path::new(AB_CONF));
    let w = which(&got, &[A_M_PY, A_M_INIT, AB_M_PY, R_M_PY]);
    note!("exists: a/b/m.py={} a/m.py={} a/m/__init__.py={} m.py={} -> {:?}", e_own, e_py, e_pkg, e_top, got);
    check!("c14.rel2.exact", w == if e_py { 0 } else if e_pkg { 1 } else { 255 });
    reach!("c14_rel_double_dot.end");
    std::mem::forget(got); std::mem::forget(db);
}
/// @harness id=c14_rel_triple_dot props=C14 tier=quick unwind=24 mem=8 cap=900
/// `from ...m import *` in /a/b/conftest.py. Symbolic: existence of /a/b/m.py, /a/m.py (decoys) and /m.py,
/// /m/__init__.py. Three dots = the grandparent package: /m.py or /m/__init__.py, else none.
#[cfg_attr(kani, kani::proof)]
#[cfg_attr(kani, kani::stub(std::path::Path::exists, crate::h_impk::fs_exists))]
#[cfg_attr(kani, kani::stub(std::path::Path::is_dir, crate::h_impk::fs_is_dir))]
#[cfg_attr(kani, kani::stub(alloc::fmt::format, crate::h_impk::fmt_last_part_py))]
#[cfg_attr(kani, kani::stub(std::path::Path::canonicalize, crate::stubs::canonicalize_err))]
#[cfg_attr(kani, kani::stub(core::slice::memchr::memchr, crate::stubs::memchr_bytewise))]
pub fn c14_rel_triple_dot() {
    let e_own: bool = any(); let e_mid: bool = any(); let e_py: bool = any(); let e_pkg: bool = any();
    assume(!(e_py && e_pkg));
    fs_install(&[f(AB_M_PY, e_own), f(A_M_PY, e_mid), f(R_M_PY, e_py), f(R_M_INIT, e_pkg)]);
    let db = FixtureDatabase::new();
    let got = db.resolve_module_to_file("...m", Path::new(AB_CONF));
    let w = which(&got, &[R_M_PY, R_M_INIT, AB_M_PY, A_M_PY]);
    note!("exists: a/b/m.py={} a/m.py={} m.py={} m/__init__.py={} -> {:?}", e_own, e_mid, e_py, e_pkg, got);
    check!("c14.rel3.exact", w == if e_py { 0 } else if e_pkg { 1 } else { 255 });
    reach!("c14_rel_triple_dot.end");
    std::mem::forget(got); std::mem::forget(db);
}

/// @harness id=c14_rel_bare_dots props=C14 tier=quick unwind=24 mem=8 cap=900
/// `from . import *` in /a/conftest.py and `from .. import *` in /a/b/conftest.py. Symbolic: existence of
/// /a/__init__.py, /__init__.py, /a/b/__init__.py. The first denotes /a/__init__.py, the second ALSO /a/__init__.py
/// (one level up from /a/b), each only if that file exists.
#[cfg_attr(kani, kani::proof)]
#[cfg_attr(kani, kani::stub(std::path::Path::exists, crate::h_impk::fs_exists))]
#[cfg_attr(kani, kani::stub(std::path::Path::is_dir, crate::h_impk::fs_is_dir))]
#[cfg_attr(kani, kani::stub(alloc::fmt::format, crate::h_impk::fmt_last_part_py))]
#[cfg_attr(kani, kani::stub(std::path::Path::canonicalize, crate::stubs::canonicalize_err))]
#[cfg_attr(kani, kani::stub(core::slice::memchr::memchr, crate::stubs::memchr_bytewise))]
pub fn c14_rel_bare_dots() {
    let e_a: bool = any(); let e_root: bool = any(); let e_ab: bool = any();
    fs_install(&[f(A_INIT, e_a), f(R_INIT, e_root), f(AB_INIT, e_ab)]);
    let db = FixtureDatabase::new();
    let g1 = db.resolve_module_to_file(".", Path::new(A_CONF));
    let w1 = which(&g1, &[A_INIT, R_INIT, AB_INIT]);
    let g2 = db.resolve_module_to_file("..", Path::new(AB_CONF));
    let w2 = which(&g2, &[A_INIT, R_INIT, AB_INIT]);
    note!("exists: a/__init__.py={} __init__.py={} a/b/__init__.py={} -> '.' from a/conftest.py = {:?}; '..' from a/b/conftest.py = {:?}", e_a, e_root, e_ab, g1, g2);
    check!("c14.bare.one_dot", w1 == if e_a { 0 } else { 255 });
    check!("c14.bare.two_dots", w2 == if e_a { 0 } else { 255 });
    reach!("c14_rel_bare_dots.end");
    std::mem::forget(g1); std::mem::forget(g2); std::mem::forget(db);
}
/// @harness id=c14_rel_dotted_package props=C14 tier=quick unwind=24 mem=8 cap=900
/// `from .p.m import *` in /a/conftest.py. Symbolic: /a/p is a directory, /a/p/m.py and /a/p/m/__init__.py exist,
/// decoys /a/m.py and /a/p.py exist. Denotes /a/p/m.py (or the package /a/p/m/__init__.py) iff /a/p is a directory.
#[cfg_attr(kani, kani::proof)]
#[cfg_attr(kani, kani::stub(std::path::Path::exists, crate::h_impk::fs_exists))]
#[cfg_attr(kani, kani::stub(std::path::Path::is_dir, crate::h_impk::fs_is_dir))]
#[cfg_attr(kani, kani::stub(alloc::fmt::format, crate::h_impk::fmt_last_part_py))]
#[cfg_attr(kani, kani::stub(std::path::Path::canonicalize, crate::stubs::canonicalize_err))]
#[cfg_attr(kani, kani::stub(core::slice::memchr::memchr, crate::stubs::memchr_bytewise))]
pub fn c14_rel_dotted_package() {
    let e_pdir: bool = any(); let e_py: bool = any(); let e_pkg: bool = any(); let e_decoy_m: bool = any(); let e_decoy_p: bool = any();
    assume(!(e_py && e_pkg));
    assume(e_pdir || !(e_py || e_pkg)); // a file below /a/p implies the directory
    fs_install(&[d(A_P_DIR, e_pdir), f(A_P_M_PY, e_py), f(A_P_M_INIT, e_pkg), f(A_M_PY, e_decoy_m), f(A_P_PY, e_decoy_p)]);
    let db = FixtureDatabase::new();
    let got = db.resolve_module_to_file(".p.m", Path::new(A_CONF));
    let w = which(&got, &[A_P_M_PY, A_P_M_INIT, A_M_PY, A_P_PY]);
    note!("a/p dir={} a/p/m.py={} a/p/m/__init__.py={} decoys a/m.py={} a/p.py={} -> {:?}", e_pdir, e_py, e_pkg, e_decoy_m, e_decoy_p, got);
    check!("c14.dotted.exact", w == if e_py { 0 } else if e_pkg { 1 } else { 255 });
    reach!("c14_rel_dotted_package.end");
    std::mem::forget(got); std::mem::forget(db);
}
/// @harness id=c14_abs_dotted props=C14,C12 tier=quick unwind=24 mem=8 cap=900
/// Absolute dotted name `p.m` (`pytest_plugins = "p.m"` / `from p.m import *`) from /a/conftest.py. Symbolic: /a/p is a
/// directory, /a/p/m.py exists, /p is a directory, /p/m.py exists (a file implies its directory). The nearest ancestor
/// that HAS the module wins; a same-named directory WITHOUT the submodule nearer to the importing file (a namespace
/// portion, e.g. a data directory) does not hide the real package further up; none when no level has it.
/// (Also serves C12: the upward search `loop { .. current_dir.parent() .. }` terminates at the file-system root — the
/// unwinding assertion on that loop is part of the verdict.)
#[cfg_attr(kani, kani::proof)]
#[cfg_attr(kani, kani::stub(std::path::Path::exists, crate::h_impk::fs_exists))]
#[cfg_attr(kani, kani::stub(std::path::Path::is_dir, crate::h_impk::fs_is_dir))]
#[cfg_attr(kani, kani::stub(alloc::fmt::format, crate::h_impk::fmt_last_part_py))]
#[cfg_attr(kani, kani::stub(std::path::Path::canonicalize, crate::stubs::canonicalize_err))]
#[cfg_attr(kani, kani::stub(core::slice::memchr::memchr, crate::stubs::memchr_bytewise))]
pub fn c14_abs_dotted() {
    let e_near_dir: bool = any(); let e_near: bool = any(); let e_far_dir: bool = any(); let e_far: bool = any();
    assume(e_near_dir || !e_near);
    assume(e_far_dir || !e_far);
    fs_install(&[d(A_P_DIR, e_near_dir), f(A_P_M_PY, e_near), d(R_P_DIR, e_far_dir), f(R_P_M_PY, e_far)]);
    let db = FixtureDatabase::new();
    warm(&db, A_P_M_PY); warm(&db, A_P_M_INIT); warm(&db, R_P_M_PY); warm(&db, R_P_M_INIT);
    let got = db.resolve_module_to_file("p.m", Path::new(A_CONF));
    let w = which(&got, &[A_P_M_PY, R_P_M_PY]);
    note!("a/p dir={} a/p/m.py={} p dir={} p/m.py={} -> {:?}", e_near_dir, e_near, e_far_dir, e_far, got);
    check!("c14.absd.exact", w == if e_near { 0 } else if e_far { 1 } else { 255 });
    reach!("c14_abs_dotted.end");
    std::mem::forget(got); std::mem::forget(db);
}

/// @harness id=c14_abs_two_levels props=C14 tier=quick unwind=24 mem=8 cap=900
/// Absolute name `m` from /a/conftest.py. Symbolic: existence of /a/m.py, /m.py and /sp/m.py (site-packages): the
/// importing file's directory first, then its parent, site-packages only when no ancestor has the module, else none.
#[cfg_attr(kani, kani::proof)]
#[cfg_attr(kani, kani::stub(std::path::Path::exists, crate::h_impk::fs_exists))]
#[cfg_attr(kani, kani::stub(std::path::Path::is_dir, crate::h_impk::fs_is_dir))]
#[cfg_attr(kani, kani::stub(alloc::fmt::format, crate::h_impk::fmt_last_part_py))]
#[cfg_attr(kani, kani::stub(std::path::Path::canonicalize, crate::stubs::canonicalize_err))]
#[cfg_attr(kani, kani::stub(core::slice::memchr::memchr, crate::stubs::memchr_bytewise))]
pub fn c14_abs_two_levels() {
    let e1: bool = any(); let e2: bool = any(); let e_sp: bool = any();
    fs_install(&[f(A_M_PY, e1), f(R_M_PY, e2), f(SP_M_PY, e_sp)]);
    let db = FixtureDatabase::new();
    db.site_packages_paths.lock().unwrap().push(PathBuf::from(SP_DIR));
    warm(&db, A_M_PY); warm(&db, A_M_INIT); warm(&db, R_M_PY); warm(&db, R_M_INIT); warm(&db, SP_M_PY); warm(&db, SP_M_INIT);
    let got = db.resolve_module_to_file("m", Path::new(A_CONF));
    let w = which(&got, &[A_M_PY, R_M_PY, SP_M_PY]);
    note!("exists: a/m.py={} m.py={} sp/m.py={} -> {:?}", e1, e2, e_sp, got);
    check!("c14.abs2.nearest_first", w == if e1 { 0 } else if e2 { 1 } else if e_sp { 2 } else { 255 });
    reach!("c14_abs_two_levels.end");
    std::mem::forget(got); std::mem::forget(db);
}

/// @harness id=c14_abs_upward_search props=C14 tier=thorough unwind=24 mem=10 cap=1800
/// `pytest_plugins = ["m"]` / `from m import *` in /a/b/conftest.py (absolute name). Symbolic: existence of /a/b/m.py,
/// /a/m.py, /m.py, and of /sp/m.py with /sp registered as the site-packages directory. The nearest ancestor directory
/// that has the module wins (rootdir / sys.path insertion of the test's directories), site-packages only when no
/// ancestor has it, none otherwise.
#[cfg_attr(kani, kani::proof)]
#[cfg_attr(kani, kani::stub(std::path::Path::exists, crate::h_impk::fs_exists))]
#[cfg_attr(kani, kani::stub(std::path::Path::is_dir, crate::h_impk::fs_is_dir))]
#[cfg_attr(kani, kani::stub(alloc::fmt::format, crate::h_impk::fmt_last_part_py))]
#[cfg_attr(kani, kani::stub(std::path::Path::canonicalize, crate::stubs::canonicalize_err))]
#[cfg_attr(kani, kani::stub(core::slice::memchr::memchr, crate::stubs::memchr_bytewise))]
pub fn c14_abs_upward_search() {
    let e0: bool = any(); let e1: bool = any(); let e2: bool = any(); let e_sp: bool = any();
    fs_install(&[f(AB_M_PY, e0), f(A_M_PY, e1), f(R_M_PY, e2), f(SP_M_PY, e_sp)]);
    let db = FixtureDatabase::new();
    db.site_packages_paths.lock().unwrap().push(PathBuf::from(SP_DIR));
    warm(&db, AB_M_PY); warm(&db, AB_M_INIT); warm(&db, A_M_PY); warm(&db, A_M_INIT); warm(&db, R_M_PY); warm(&db, R_M_INIT);
    warm(&db, SP_M_PY); warm(&db, SP_M_INIT);
    let got = db.resolve_module_to_file("m", Path::new(AB_CONF));
    let w = which(&got, &[AB_M_PY, A_M_PY, R_M_PY, SP_M_PY]);
    note!("exists: a/b/m.py={} a/m.py={} m.py={} sp/m.py={} -> {:?}", e0, e1, e2, e_sp, got);
    // below the native root the upward search continues into the real file system; ROOT's ancestors hold no m.py
    check!("c14.abs.nearest_first", w == if e0 { 0 } else if e1 { 1 } else if e2 { 2 } else if e_sp { 3 } else { 255 });
    reach!("c14_abs_upward_search.end");
    std::mem::forget(got); std::mem::forget(db);
}
/// @harness id=c14_abs_fallbacks props=C14 tier=quick unwind=24 mem=10 cap=1200
/// Absolute name `m` from /conftest.py with nothing in the ancestor directory. Symbolic: /sp/m.py, the package
/// /sp/m/__init__.py, and /e/m.py below an editable install's source root /e. Site-packages is consulted before the
/// editable roots; module or package; none when nothing exists.
#[cfg_attr(kani, kani::proof)]
#[cfg_attr(kani, kani::stub(std::path::Path::exists, crate::h_impk::fs_exists))]
#[cfg_attr(kani, kani::stub(std::path::Path::is_dir, crate::h_impk::fs_is_dir))]
#[cfg_attr(kani, kani::stub(alloc::fmt::format, crate::h_impk::fmt_last_part_py))]
#[cfg_attr(kani, kani::stub(std::path::Path::canonicalize, crate::stubs::canonicalize_err))]
#[cfg_attr(kani, kani::stub(core::slice::memchr::memchr, crate::stubs::memchr_bytewise))]
pub fn c14_abs_fallbacks() {
    let e_sp: bool = any(); let e_sp_pkg: bool = any(); let e_ed: bool = any();
    assume(!(e_sp && e_sp_pkg));
    fs_install(&[f(SP_M_PY, e_sp), f(SP_M_INIT, e_sp_pkg), f(ED_M_PY, e_ed)]);
    let db = FixtureDatabase::new();
    db.site_packages_paths.lock().unwrap().push(PathBuf::from(SP_DIR));
    db.editable_install_roots.lock().unwrap().push(EditableInstall {
        package_name: st("e"), raw_package_name: st("e"), source_root: PathBuf::from(ED_DIR), site_packages: PathBuf::from(SP_DIR),
    });
    warm(&db, R_M_PY); warm(&db, R_M_INIT);
    warm(&db, SP_M_PY); warm(&db, SP_M_INIT); warm(&db, ED_M_PY); warm(&db, ED_M_INIT);
    let got = db.resolve_module_to_file("m", Path::new(R_CONF));
    let w = which(&got, &[SP_M_PY, SP_M_INIT, ED_M_PY]);
    note!("exists: sp/m.py={} sp/m/__init__.py={} e/m.py={} -> {:?}", e_sp, e_sp_pkg, e_ed, got);
    check!("c14.fallback.order", w == if e_sp { 0 } else if e_sp_pkg { 1 } else if e_ed { 2 } else { 255 });
    reach!("c14_abs_fallbacks.end");
    std::mem::forget(got); std::mem::forget(db);
}
// ------------------------------------------------------------------------------------------------------------------
// classification: is a file that lives below an editable install's source root third-party?

fn classify(ws: Option<&'static str>, roots: &[&'static str], file: &'static str) -> bool {
    let db = FixtureDatabase::new();
    if let Some(w) = ws { *db.workspace_root.lock().unwrap() = Some(PathBuf::from(w)); }
    for r in roots {
        db.editable_install_roots.lock().unwrap().push(EditableInstall {
            package_name: st("e"), raw_package_name: st("e"), source_root: PathBuf::from(*r), site_packages: PathBuf::from("/v/sp"),
        });
    }
    let got = db.is_editable_install_third_party(Path::new(file));
    std::mem::forget(db);
    got
}

macro_rules! cls {
    ($id:literal, $ws:expr, $roots:expr, $file:expr, $want:expr) => {{
        let roots: &[&'static str] = $roots;
        let got = classify($ws, roots, $file);
        note!("workspace {:?}, editable source roots {:?}: {:?} third-party={} expected={}", $ws, roots, $file, got, $want);
        check!($id, got == $want);
    }};
}

/// @harness id=c14_editable_classification props=C14 tier=quick unwind=24 mem=8 cap=900
/// Editable installs, executed concretely (rows): a source root OUTSIDE the workspace is third-party; one INSIDE the
/// workspace, or one that CONTAINS the workspace (the project installed editable in its own venv), is not; a file
/// outside every source root is not; a root whose name merely has the workspace path as a string prefix (/w2 vs /w)
/// is outside; with two installs the one the file lives under decides.
#[cfg_attr(kani, kani::proof)]
#[cfg_attr(kani, kani::stub(core::slice::memchr::memchr, crate::stubs::memchr_bytewise))]
pub fn c14_editable_classification() {
    cls!("c14.edit.outside_is_third_party", Some("/w"), &["/x/lib"], "/x/lib/pl.py", true);
    cls!("c14.edit.inside_workspace", Some("/w"), &["/w/lib"], "/w/lib/pl.py", false);
    cls!("c14.edit.contains_workspace", Some("/w/sub"), &["/w"], "/w/pl.py", false);
    cls!("c14.edit.file_elsewhere", Some("/w"), &["/x/lib"], "/y/pl.py", false);
    cls!("c14.edit.string_prefix_is_not_inside", Some("/w"), &["/w2"], "/w2/pl.py", true);
    cls!("c14.edit.file_string_prefix", Some("/w"), &["/x/lib"], "/x/lib2/pl.py", false);
    cls!("c14.edit.second_install_decides", Some("/w"), &["/w/lib", "/x/lib"], "/x/lib/pl.py", true);
    cls!("c14.edit.first_install_decides", Some("/w"), &["/x/lib", "/w/lib"], "/w/lib/pl.py", false);
    cls!("c14.edit.no_workspace", None::<&'static str>, &["/x/lib"], "/x/lib/pl.py", true);
    reach!("c14_editable_classification.end");
}
