//! Kani-compat layer: under `cfg(kani)` the symbolic primitives are Kani's; natively they pop the
//! next value of a solver witness (the byte vectors printed by `--concrete-playback=print`) so the
//! very same harness function is the replay.
#[cfg(kani)]
pub use kani::{any, assume};

#[cfg(not(kani))]
pub mod native {
    use std::cell::RefCell;
    thread_local! {
        pub static WITNESS: RefCell<(Vec<Vec<u8>>, usize)> = RefCell::new((Vec::new(), 0));
        pub static FAILED: RefCell<Vec<String>> = RefCell::new(Vec::new());
        pub static PASSED: RefCell<Vec<String>> = RefCell::new(Vec::new());
        pub static NOTES: RefCell<Vec<String>> = RefCell::new(Vec::new());
        pub static ASSUME_BROKEN: RefCell<bool> = RefCell::new(false);
        pub static UNDERFLOW: RefCell<bool> = RefCell::new(false);
    }
    pub fn load(w: Vec<Vec<u8>>) {
        WITNESS.with(|c| *c.borrow_mut() = (w, 0));
        FAILED.with(|c| c.borrow_mut().clear());
        PASSED.with(|c| c.borrow_mut().clear());
        NOTES.with(|c| c.borrow_mut().clear());
        ASSUME_BROKEN.with(|c| *c.borrow_mut() = false);
        UNDERFLOW.with(|c| *c.borrow_mut() = false);
    }
    pub fn next(n: usize) -> Vec<u8> {
        WITNESS.with(|c| {
            let mut g = c.borrow_mut();
            let i = g.1;
            g.1 += 1;
            match g.0.get(i) {
                Some(v) => { let mut v = v.clone(); v.resize(n, 0); v }
                None => { UNDERFLOW.with(|u| *u.borrow_mut() = true); vec![0; n] }
            }
        })
    }
    pub trait Wit: Sized { fn wit() -> Self; }
    impl Wit for bool { fn wit() -> Self { next(1)[0] & 1 == 1 } }
    impl Wit for u8 { fn wit() -> Self { next(1)[0] } }
    impl Wit for u16 { fn wit() -> Self { let b = next(2); u16::from_le_bytes([b[0], b[1]]) } }
    impl Wit for u32 { fn wit() -> Self { let b = next(4); u32::from_le_bytes([b[0], b[1], b[2], b[3]]) } }
    impl Wit for u64 { fn wit() -> Self { let b = next(8); let mut a = [0u8; 8]; a.copy_from_slice(&b); u64::from_le_bytes(a) } }
    impl Wit for usize { fn wit() -> Self { <u64 as Wit>::wit() as usize } }
    impl<const N: usize> Wit for [u8; N] {
        fn wit() -> Self { let mut a = [0u8; N]; for x in a.iter_mut() { *x = next(1)[0]; } a }
    }
    pub fn any<T: Wit>() -> T { T::wit() }
    pub fn assume(b: bool) { if !b { ASSUME_BROKEN.with(|c| *c.borrow_mut() = true); panic!("PLSV_ASSUME_BROKEN"); } }
    pub fn note(s: String) { NOTES.with(|c| c.borrow_mut().push(s)); }
}
#[cfg(not(kani))]
pub use native::{any, assume};

/// `check!("id", cond)`: a property obligation. Solver build: `kani::cover!(!cond, "id")` — a cover property is
/// SATISFIED exactly when some input violates `cond`, and, unlike Kani's `assert!` (assert-then-assume, i.e. panic
/// semantics), it does not cut the paths that continue after a violated obligation, so later obligations and the
/// reachability witness are still evaluated (needed for the known-finding probes). The driver reads a satisfied
/// cover whose id does not end in ".end" as a violated obligation and asks CBMC for its trace.
/// Native build: failure is recorded under the id and the harness continues likewise.
#[cfg(kani)]
#[macro_export]
macro_rules! check {
    ($id:literal, $cond:expr) => { kani::cover!(!($cond), $id) };
}
#[cfg(not(kani))]
#[macro_export]
macro_rules! check {
    ($id:expr, $cond:expr) => {
        if $cond { $crate::kx::native::PASSED.with(|c| c.borrow_mut().push($id.to_string())); }
        else { $crate::kx::native::FAILED.with(|c| c.borrow_mut().push($id.to_string())); }
    };
}
/// `reach!("id.end")`: reachability witness (vacuity guard); ids end in ".end". Solver: `kani::cover!(true, ..)`.
#[cfg(kani)]
#[macro_export]
macro_rules! reach {
    ($id:literal) => { kani::cover!(true, $id) };
}
#[cfg(not(kani))]
#[macro_export]
macro_rules! reach {
    ($id:expr) => { $crate::kx::native::PASSED.with(|c| c.borrow_mut().push(format!("reach:{}", $id))); };
}
/// `note!(..)`: native-only description of the concrete case (for the witness file); no-op in the solver build.
#[cfg(kani)]
#[macro_export]
macro_rules! note { ($($t:tt)*) => {{}} }
#[cfg(not(kani))]
#[macro_export]
macro_rules! note { ($($t:tt)*) => { $crate::kx::native::note(format!($($t)*)) } }
