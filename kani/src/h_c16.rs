//! C16 — dependency diagnostics: cycles and scope mismatches, against a reference dependency graph whose
//! edges are resolved per depending file with `spec::resolve`.
use crate::fixtures::{FixtureCycle, FixtureDatabase, FixtureScope, ScopeMismatch};
use crate::kx::{any, assume};
use crate::spec;
use crate::world::*;
use std::path::Path;

const MAXD: usize = 6;

/// reference graph over definitions: edge i -> resolve(file(i), dep, excluding i when dep == name(i))
fn edges(w: &World) -> [[bool; MAXD]; MAXD] {
    let mut e = [[false; MAXD]; MAXD];
    for i in 0..w.defs.len() {
        for dep in w.defs[i].deps.iter() {
            if *dep == "request" || *dep == "self" { continue; }
            // a same-named parameter resolves to the next definition outward; when there is none pytest reports a
            // recursive dependency on the fixture itself (self-loop)
            let own = *dep == w.defs[i].name;
            let j = spec::resolve(w, w.defs[i].file, dep, if own { Some(i) } else { None }).or(if own { Some(i) } else { None });
            if let Some(j) = j { e[i][j] = true; }
        }
    }
    e
}
/// reach[i][j]: a path of >= 1 edges from i to j
fn closure(e: &[[bool; MAXD]; MAXD], n: usize) -> [[bool; MAXD]; MAXD] {
    let mut r = *e;
    for k in 0..n { for i in 0..n { for j in 0..n { if r[i][k] && r[k][j] { r[i][j] = true; } } } }
    r
}
fn def_by_line(w: &World, line: usize) -> Option<usize> { (0..w.defs.len()).find(|&i| w.defs[i].line == line) }

/// Is the reported cycle a real closed chain? anchor = path[0]; every hop resolves as pytest would from the
/// depending definition's file, and the last hop returns to the anchor.
fn chain_is_real(w: &World, c: &FixtureCycle) -> bool {
    let Some(anchor) = def_by_line(w, c.fixture.line) else { return false };
    if c.cycle_path.len() < 2 { return false; }
    if c.cycle_path[0] != w.defs[anchor].name { return false; }
    let mut cur = anchor;
    for name in c.cycle_path.iter().skip(1) {
        if !w.defs[cur].deps.iter().any(|d| *d == name.as_str()) { return false; }
        let own = name.as_str() == w.defs[cur].name;
        match spec::resolve(w, w.defs[cur].file, name, if own { Some(cur) } else { None }).or(if own { Some(cur) } else { None }) { Some(j) => cur = j, None => return false }
    }
    cur == anchor
}

/// `kf_first`: this arm's world contains a name defined at several levels — the region where the known
/// `.first()` finding applies (the analyses read `definitions[name].first()` instead of resolving).
pub fn cycles_arm(w: World, kf_first: bool) {
    assume(w.layout_ok());
    for i in 0..w.defs.len() { for j in 0..i { assume(w.defs[i].line != w.defs[j].line); } }
    let n = w.defs.len();
    let e = edges(&w);
    let r = closure(&e, n);
    note!("order={:?} defs={:?}", w.order, w.defs.iter().map(|d| (d.file, d.name, d.line, d.deps.clone())).collect::<Vec<_>>());
    let db = build(&w, DEFS_ONLY);
    let cycles = db.detect_fixture_cycles();
    note!("reported={:?}", cycles.iter().map(|c| (c.cycle_path.clone(), c.fixture.line)).collect::<Vec<_>>());
    let probe = kf_first && crate::kf::C16_FIRST_DEFINITION_GRAPH;
    let mut all_real = true;
    for c in cycles.iter() { if !chain_is_real(&w, c) { all_real = false; } }
    let mut all_found = true;
    for i in 0..n {
        if r[i][i] && !cycles.iter().any(|c| c.cycle_path.iter().any(|nm| nm.as_str() == w.defs[i].name)) { all_found = false; }
    }
    if probe {
        check!("KF:c16.cycles.exact", all_real && all_found);
    } else {
        check!("c16.cycles.every_reported_path_is_real", all_real);
        check!("c16.cycles.every_cycle_reported", all_found);
    }
    reach!("c16.cycles.end");
    std::mem::forget(cycles); std::mem::forget(db); std::mem::forget(w);
}

/// scope mismatches of file `file`: warning on (F, D) iff scope(resolve(F.file, D)) < scope(F).
pub fn scope_arm(w: World, file: u8, kf_first: bool) {
    assume(w.layout_ok());
    for i in 0..w.defs.len() { for j in 0..i { assume(w.defs[i].line != w.defs[j].line); } }
    note!("order={:?} defs={:?}", w.order, w.defs.iter().map(|d| (d.file, d.name, d.line, d.scope, d.deps.clone())).collect::<Vec<_>>());
    let db = build(&w, DEFS_AND_FILE_DEFS);
    let got = db.detect_scope_mismatches_in_file(Path::new(path(file)));
    note!("reported={:?}", got.iter().map(|m| (m.fixture.line, m.dependency.line)).collect::<Vec<_>>());
    let probe = kf_first && crate::kf::C16_FIRST_DEFINITION_SCOPE;
    let mut exact = true;
    // soundness: every reported pair is a spec mismatch
    for m in got.iter() {
        let ok = match (def_by_line(&w, m.fixture.line), def_by_line(&w, m.dependency.line)) {
            (Some(fi), Some(di)) => {
                let nm = w.defs[di].name;
                let ex = if nm == w.defs[fi].name { Some(fi) } else { None };
                w.defs[fi].file == file && w.defs[fi].deps.contains(&nm)
                    && spec::resolve(&w, file, nm, ex) == Some(di)
                    && spec::scope_rank(w.defs[di].scope) < spec::scope_rank(w.defs[fi].scope)
            }
            _ => false,
        };
        if !ok { exact = false; }
    }
    // completeness: every spec mismatch of the definition the analysis looks at in this file is reported
    for fi in 0..w.defs.len() {
        if w.defs[fi].file != file { continue; }
        for dep in w.defs[fi].deps.iter() {
            let ex = if *dep == w.defs[fi].name { Some(fi) } else { None };
            if let Some(di) = spec::resolve(&w, file, dep, ex) {
                if spec::scope_rank(w.defs[di].scope) < spec::scope_rank(w.defs[fi].scope)
                    && !got.iter().any(|m| m.fixture.line == w.defs[fi].line && m.dependency.line == w.defs[di].line) { exact = false; }
            }
        }
    }
    if probe { check!("KF:c16.scope.exact", exact); } else { check!("c16.scope.exact", exact); }
    reach!("c16.scope.end");
    std::mem::forget(got); std::mem::forget(db); std::mem::forget(w);
}

fn any_line() -> usize { let l: usize = any(); assume(l >= 4 && l < 1000); l }
fn any_scope() -> FixtureScope { let k: u8 = any(); assume(k < 5); spec::scope_from(k) }

fn d(w: &mut World, file: u8, name: &'static str, deps: &[&'static str]) -> usize {
    let l = any_line();
    let i = w.def(file, name, l);
    w.defs[i].deps = deps.to_vec();
    w.defs[i].scope = any_scope();
    i
}

/// concrete line and scope (cycle arms whose verdict depends on neither; keeps the 3-name graphs within reach)
fn dc(w: &mut World, file: u8, name: &'static str, deps: &[&'static str]) -> usize {
    let l = 4 + 2 * w.defs.len();
    let i = w.def(file, name, l);
    w.defs[i].deps = deps.to_vec();
    i
}
/// scope arms: concrete lines (4, 6, 8, ... in declaration order), symbolic scopes — the verdict depends on scopes only
fn ds(w: &mut World, file: u8, name: &'static str, deps: &[&'static str]) -> usize {
    let l = 4 + 2 * w.defs.len();
    let i = w.def(file, name, l);
    w.defs[i].deps = deps.to_vec();
    w.defs[i].scope = any_scope();
    i
}
macro_rules! c16_arm {
    ($id:ident, $body:expr) => {
        #[cfg_attr(kani, kani::proof)]
        #[cfg_attr(kani, kani::stub(std::path::Path::exists, crate::stubs::path_exists_false))]
        #[cfg_attr(kani, kani::stub(crate::fixtures::FixtureDatabase::is_fixture_imported_in_file, crate::world::stub_is_imported))]
        #[cfg_attr(kani, kani::stub(std::hash::RandomState::new, crate::stubs::fixed_random_state))]
        pub fn $id() { $body }
    };
}

/// @harness id=c16_cyc_self_loop props=C16,C12 tier=quick unwind=17 mem=10 cap=3000 term=1 unwindset=find_inner:3
/// one fixture `f(f)` with no parent anywhere: a genuine self-cycle, must be reported as f -> f.
c16_arm!(c16_cyc_self_loop, { let mut w = World::new(&[C0]); d(&mut w, C0, "f", &["f"]); cycles_arm(w, false) });
/// @harness id=c16_cyc_two_cycle props=C16,C12 tier=thorough unwind=17 mem=12 cap=900 term=1 unwindset=find_inner:3
/// C0: f(g), C1: g(f): a 2-cycle across files.
c16_arm!(c16_cyc_two_cycle, { let mut w = World::new(&[C0, C1]); d(&mut w, C0, "f", &["g"]); d(&mut w, C1, "g", &["f"]); cycles_arm(w, false) });
/// @harness id=c16_cyc_override_parent_first props=C16,C08 tier=quick unwind=17 mem=12 cap=1800 unwindset=find_inner:3
/// documented override: C0 `f()` registered first, C1 `f(f)` second: not a cycle.
c16_arm!(c16_cyc_override_parent_first, { let mut w = World::new(&[C0, C1]); d(&mut w, C0, "f", &[]); d(&mut w, C1, "f", &["f"]); cycles_arm(w, true) });
/// @harness id=c16_cyc_override_child_first props=C16,C08 tier=quick unwind=17 mem=12 cap=1800 unwindset=find_inner:3
/// documented override, child conftest registered first: still not a cycle.
c16_arm!(c16_cyc_override_child_first, { let mut w = World::new(&[C1, C0]); d(&mut w, C1, "f", &["f"]); d(&mut w, C0, "f", &[]); cycles_arm(w, true) });
/// @harness id=c16_cyc_branch_then_back_edge props=C16,C12 tier=thorough unwind=17 mem=14 cap=900 term=1 unwindset=find_inner:3
/// f(h, g), g(f), h(): the fixture closing the cycle lists a finished sibling branch before the back edge.
c16_arm!(c16_cyc_branch_then_back_edge, { let mut w = World::new(&[C0]); d(&mut w, C0, "f", &["h", "g"]); d(&mut w, C0, "g", &["f"]); d(&mut w, C0, "h", &[]); cycles_arm(w, false) });
/// @harness id=c16_cyc_branch_concrete props=C16,C12 tier=thorough unwind=17 mem=10 cap=900 term=1
/// f(h, g), g(f), h() in one conftest, lines and scopes concrete (the verdict depends on neither): the cycle f <-> g is
/// reported and every reported path is a real closed chain (h is not on it).
c16_arm!(c16_cyc_branch_concrete, { let mut w = World::new(&[C0]); dc(&mut w, C0, "f", &["h", "g"]); dc(&mut w, C0, "g", &["f"]); dc(&mut w, C0, "h", &[]); cycles_arm(w, false) });
/// @harness id=c16_cyc_two_cycle_concrete props=C16,C12 tier=thorough unwind=17 mem=10 cap=900 term=1
/// C0: f(g), C1: g(f), lines and scopes concrete: the 2-cycle across files is reported.
c16_arm!(c16_cyc_two_cycle_concrete, { let mut w = World::new(&[C0, C1]); dc(&mut w, C0, "f", &["g"]); dc(&mut w, C1, "g", &["f"]); cycles_arm(w, false) });
/// @harness id=c16_cyc_unknown_dep props=C16 tier=quick unwind=17 mem=10 cap=1500 unwindset=find_inner:3
/// f(x) where x is no fixture, g(f): no cycle.
c16_arm!(c16_cyc_unknown_dep, { let mut w = World::new(&[C0]); d(&mut w, C0, "f", &["x"]); d(&mut w, C0, "g", &["f"]); cycles_arm(w, false) });

/// @harness id=c16_scope_simple props=C16 tier=thorough unwind=17 mem=12 cap=1200 unwindset=find_inner:3
/// C0: f, g(f), all 25 scope pairs: warning iff scope(f) < scope(g).
c16_arm!(c16_scope_simple, { let mut w = World::new(&[C0]); ds(&mut w, C0, "f", &[]); ds(&mut w, C0, "g", &["f"]); scope_arm(w, C0, false) });
/// @harness id=c16_scope_two_levels_root_first props=C16,C08 tier=thorough unwind=17 mem=12 cap=1500 unwindset=find_inner:3
/// f defined in C0 (registered first) and C1 with independent scopes; U: g(f): verdict from C1's f.
c16_arm!(c16_scope_two_levels_root_first, { let mut w = World::new(&[C0, C1, U]); ds(&mut w, C0, "f", &[]); ds(&mut w, C1, "f", &[]); ds(&mut w, U, "g", &["f"]); scope_arm(w, U, true) });
/// @harness id=c16_scope_two_levels_near_first props=C16,C08 tier=thorough unwind=17 mem=12 cap=1500 unwindset=find_inner:3
/// same, C1 registered before C0.
c16_arm!(c16_scope_two_levels_near_first, { let mut w = World::new(&[C1, C0, U]); ds(&mut w, C1, "f", &[]); ds(&mut w, C0, "f", &[]); ds(&mut w, U, "g", &["f"]); scope_arm(w, U, true) });
/// @harness id=c16_scope_override_parent_first props=C16 tier=thorough unwind=17 mem=12 cap=1500 unwindset=find_inner:3
/// override C1 `f(f)` over C0 `f()` (parent registered first): warning on C1.f iff scope(C0.f) < scope(C1.f).
c16_arm!(c16_scope_override_parent_first, { let mut w = World::new(&[C0, C1]); ds(&mut w, C0, "f", &[]); ds(&mut w, C1, "f", &["f"]); scope_arm(w, C1, true) });
/// @harness id=c16_scope_sibling_unrelated props=C16,C08 tier=thorough unwind=17 mem=12 cap=1500 unwindset=find_inner:3
/// an unrelated same-named f in the sibling conftest S registered first; C0: f, g(f): S must not matter.
c16_arm!(c16_scope_sibling_unrelated, { let mut w = World::new(&[S, C0]); ds(&mut w, S, "f", &[]); ds(&mut w, C0, "f", &[]); ds(&mut w, C0, "g", &["f"]); scope_arm(w, C0, true) });

// ---- lean scope arms: concrete lines AND scopes (one execution of the real analysis per harness); the symbolic-scope
// arms above exceed 12 GB on the current tree (each dependency is now resolved through the path-walking lookup)
fn dsc(w: &mut World, file: u8, name: &'static str, deps: &[&'static str], scope: FixtureScope) -> usize {
    let i = dc(w, file, name, deps);
    w.defs[i].scope = scope;
    i
}
/// @harness id=c16_lean_scope_mismatch props=C16 tier=quick unwind=17 mem=10 cap=1500
/// C0: f (function scope), g(f) session-scoped: exactly one warning, on (g, f).
c16_arm!(c16_lean_scope_mismatch, { let mut w = World::new(&[C0]); dsc(&mut w, C0, "f", &[], FixtureScope::Function); dsc(&mut w, C0, "g", &["f"], FixtureScope::Session); scope_arm(w, C0, false) });
/// @harness id=c16_lean_scope_ok props=C16 tier=thorough unwind=17 mem=10 cap=1500
/// C0: f (session), g(f) function-scoped: no warning.
c16_arm!(c16_lean_scope_ok, { let mut w = World::new(&[C0]); dsc(&mut w, C0, "f", &[], FixtureScope::Session); dsc(&mut w, C0, "g", &["f"], FixtureScope::Function); scope_arm(w, C0, false) });
/// @harness id=c16_lean_scope_nearest_definition_decides props=C16,C08 tier=quick unwind=17 mem=10 cap=1500
/// f session-scoped in the root conftest (registered FIRST), function-scoped in /a/conftest.py; /a/t_u.py: module-scoped
/// g(f): pytest injects the nearer, function-scoped f — exactly one warning, naming C1's f (the case repaired by 4e1ca75).
c16_arm!(c16_lean_scope_nearest_definition_decides, { let mut w = World::new(&[C0, C1, U]); dsc(&mut w, C0, "f", &[], FixtureScope::Session); dsc(&mut w, C1, "f", &[], FixtureScope::Function); dsc(&mut w, U, "g", &["f"], FixtureScope::Module); scope_arm(w, U, false) });
/// @harness id=c16_lean_scope_override_broader_than_parent props=C16 tier=quick unwind=17 mem=10 cap=1500
/// override C1 `f(f)` class-scoped over the function-scoped parent in C0 (parent registered first): the override's own
/// parameter denotes the PARENT — one warning on (C1.f, C0.f).
c16_arm!(c16_lean_scope_override_broader_than_parent, { let mut w = World::new(&[C0, C1]); dsc(&mut w, C0, "f", &[], FixtureScope::Function); dsc(&mut w, C1, "f", &["f"], FixtureScope::Class); scope_arm(w, C1, false) });
