//! Name -> harness function (native replay). Generated part lives in gen/registry.rs (rewritten by ./check).
include!("gen/registry.rs");
