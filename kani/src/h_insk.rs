//! Parameter-insertion kernel (C17, second half): `get_function_param_insertion_info` — where the quick fix and the
//! body completion put a new parameter — on signature shapes of the property's quantifier.
//!
//! Each row is a concrete document + the 1-based line of its `def`; the REAL function is executed by CBMC on it and
//! its answer (line, column, needs_comma) is compared with an independent reference scanner written here: the closing
//! parenthesis that MATCHES the `def`'s opening one (bracket depth, comments skipped), and "a separator is needed" iff
//! the parameter list is non-empty and does not already end in a comma. Two harnesses put symbolic bytes into the
//! parameter list. The edit itself (`", name"` / `"name"` at that position) is assembled inline in the handlers
//! (providers/completion.rs, code_action.rs) and is outside the encoded program.
use crate::fixtures::FixtureDatabase;
use crate::kx::{any, assume};
use crate::stubs;
use std::path::PathBuf;
use std::sync::Arc;

/// reference: (line 1-based, byte column of the matching ')', separator needed)
fn want_insertion(text: &str, def_line: usize) -> Option<(usize, usize, bool)> {
    let b = text.as_bytes();
    // start of def_line
    let mut i = 0; let mut line = 1;
    while line < def_line && i < b.len() { if b[i] == b'\n' { line += 1; } i += 1; }
    // the first '(' on/after the def line
    while i < b.len() && b[i] != b'(' { if b[i] == b'\n' { line += 1; } i += 1; }
    if i >= b.len() { return None; }
    i += 1;
    let mut depth = 1usize; let mut col_start = i;
    // column bookkeeping: index of the first byte of the current line
    let mut k = i; while k > 0 && b[k - 1] != b'\n' { k -= 1; } col_start = k;
    let mut any_param = false; let mut last_sig = 0u8;
    while i < b.len() {
        let c = b[i];
        if c == b'#' { while i < b.len() && b[i] != b'\n' { i += 1; } continue; }
        if c == b'\n' { line += 1; col_start = i + 1; i += 1; continue; }
        if c == b'(' || c == b'[' || c == b'{' { depth += 1; }
        if c == b')' || c == b']' || c == b'}' {
            depth -= 1;
            if depth == 0 { return Some((line, i - col_start, any_param && last_sig != b',')); }
        }
        if c != b' ' && c != b'\t' { any_param = true; last_sig = c; }
        i += 1;
    }
    None
}

fn st(t: &str) -> String { let mut o = String::with_capacity(t.len() + 1); o.push_str(t); o }

fn got_insertion(text: &str, def_line: usize) -> Option<(usize, usize, bool)> {
    let db = FixtureDatabase::new();
    let p = PathBuf::from(crate::world::path(crate::world::U));
    db.file_cache.insert(p.clone(), Arc::new(st(text)));
    let r = db.get_function_param_insertion_info(&p, def_line);
    let out = r.as_ref().map(|i| (i.line, i.char_pos, i.needs_comma));
    std::mem::forget(r); std::mem::forget(db); std::mem::forget(p);
    out
}

macro_rules! ins {
    ($id:literal, $text:expr, $line:expr) => {{
        let want = want_insertion($text, $line);
        let got = got_insertion($text, $line);
        note!("insertion point for the def on line {} of {:?}: got {:?}, expected {:?} (line, column, needs_comma)", $line, $text, got, want);
        check!($id, got == want);
    }};
}

/// @harness id=c17_ins_single_line props=C17 tier=quick unwind=40 mem=8 cap=900
/// Single-line signatures, executed concretely: no parameter, one, two, blanks only between the parentheses, an
/// annotation holding a call / a dict (parentheses and a colon inside the list; defaults are the subject of c17_ins_after_default), `async def`, a method, and the SECOND of two functions (the first one must not be touched).
#[cfg_attr(kani, kani::proof)]
#[cfg_attr(kani, kani::stub(std::path::Path::canonicalize, stubs::canonicalize_err))]
#[cfg_attr(kani, kani::stub(core::unicode::unicode_data::white_space::lookup, stubs::uni_white_space))]
#[cfg_attr(kani, kani::stub(core::slice::memchr::memchr, stubs::memchr_bytewise))]
pub fn c17_ins_single_line() {
    ins!("c17.ins.no_param", "def test_x():\n    pass\n", 1);
    ins!("c17.ins.one_param", "def test_x(a):\n    pass\n", 1);
    ins!("c17.ins.two_params", "def test_x(a, b):\n    pass\n", 1);
    ins!("c17.ins.blank_parens", "def test_x( ):\n    pass\n", 1);
    ins!("c17.ins.call_annotation", "def test_x(a: g()):\n    pass\n", 1);
    ins!("c17.ins.dict_annotation", "def test_x(a: {1: 2}):\n    pass\n", 1);
    ins!("c17.ins.async", "async def test_x(a):\n    pass\n", 1);
    ins!("c17.ins.method", "class T:\n    def test_x(self):\n        pass\n", 2);
    ins!("c17.ins.second_function", "def test_a(x):\n    pass\ndef test_b():\n    pass\n", 3);
    reach!("c17_ins_single_line.end");
}

/// @harness id=c17_ins_multi_line props=C17,C11 tier=quick unwind=48 mem=8 cap=900
/// Multi-line signatures without trailing comma, executed concretely: closing `):` on its own line after one / two
/// parameter lines and after none, parameters continued on the `def` line's successor, a comment holding a parenthesis
/// after the closing `):`, an indented method.
#[cfg_attr(kani, kani::proof)]
#[cfg_attr(kani, kani::stub(std::path::Path::canonicalize, stubs::canonicalize_err))]
#[cfg_attr(kani, kani::stub(core::unicode::unicode_data::white_space::lookup, stubs::uni_white_space))]
#[cfg_attr(kani, kani::stub(core::slice::memchr::memchr, stubs::memchr_bytewise))]
pub fn c17_ins_multi_line() {
    ins!("c17.insm.one_param_line", "def test_x(\n    a\n):\n    pass\n", 1);
    ins!("c17.insm.two_param_lines", "def test_x(\n    a,\n    b\n):\n    pass\n", 1);
    ins!("c17.insm.no_param_line", "def test_x(\n):\n    pass\n", 1);
    ins!("c17.insm.continued", "def test_x(a,\n           b):\n    pass\n", 1);
    ins!("c17.insm.comment_with_paren", "def test_x(\n    a\n):  # (n)\n    pass\n", 1);
    ins!("c17.insm.method", "class T:\n    def test_x(\n        self\n    ):\n        pass\n", 2);
    reach!("c17_ins_multi_line.end");
}

/// @harness id=c17_ins_known_shapes props=C17 tier=quick unwind=48 mem=8 cap=900
/// The two shapes of the recorded finding C17_INSERTION_TEXT_SEARCH, executed concretely: a return annotation (the
/// search for `):` runs on into the NEXT function) and a black-style trailing comma (a second comma is requested).
#[cfg_attr(kani, kani::proof)]
#[cfg_attr(kani, kani::stub(std::path::Path::canonicalize, stubs::canonicalize_err))]
#[cfg_attr(kani, kani::stub(core::unicode::unicode_data::white_space::lookup, stubs::uni_white_space))]
#[cfg_attr(kani, kani::stub(core::slice::memchr::memchr, stubs::memchr_bytewise))]
pub fn c17_ins_known_shapes() {
    if crate::kf::C17_INSERTION_TEXT_SEARCH {
        ins!("KF:c17.ins.return_annotation", "def test_a() -> None:\n    pass\ndef test_b():\n    pass\n", 1);
        ins!("KF:c17.ins.trailing_comma", "def test_x(\n    a,\n):\n    pass\n", 1);
    } else {
        ins!("c17.ins.return_annotation", "def test_a() -> None:\n    pass\ndef test_b():\n    pass\n", 1);
        ins!("c17.ins.trailing_comma", "def test_x(\n    a,\n):\n    pass\n", 1);
    }
    reach!("c17_ins_known_shapes.end");
}

fn param_byte(sel: u8) -> u8 { match sel { 0 => b'a', 1 => b'_', 2 => b' ', 3 => b'\t', 4 => b'=', _ => b'1' } }

/// @harness id=c17_ins_symbolic_params props=C17 tier=thorough unwind=40 mem=10 cap=1200
/// `def t(XYZ):` with X, Y, Z ANY bytes over { a _ space tab = 1 } (216 parameter lists: empty-looking, padded, with a
/// default): the insertion point is the closing parenthesis, and a separator is requested iff some byte is not blank.
#[cfg_attr(kani, kani::proof)]
#[cfg_attr(kani, kani::stub(std::path::Path::canonicalize, stubs::canonicalize_err))]
#[cfg_attr(kani, kani::stub(core::unicode::unicode_data::white_space::lookup, stubs::uni_white_space))]
#[cfg_attr(kani, kani::stub(core::slice::memchr::memchr, stubs::memchr_bytewise))]
pub fn c17_ins_symbolic_params() {
    let s: [u8; 3] = any();
    assume(s[0] < 6 && s[1] < 6 && s[2] < 6);
    let mut text = String::with_capacity(24);
    text.push_str("def t(");
    for k in 0..3 { text.push(param_byte(s[k]) as char); }
    text.push_str("):\n    pass\n");
    let blank = |x: u8| x == 2 || x == 3;
    let want = Some((1usize, 9usize, !(blank(s[0]) && blank(s[1]) && blank(s[2]))));
    let db = FixtureDatabase::new();
    let p = PathBuf::from(crate::world::path(crate::world::U));
    note!("insertion point in {:?}", text);
    db.file_cache.insert(p.clone(), Arc::new(text));
    let r = db.get_function_param_insertion_info(&p, 1);
    let got = r.as_ref().map(|i| (i.line, i.char_pos, i.needs_comma));
    note!("got {:?}, expected {:?}", got, want);
    check!("c17.inss.exact", got == want);
    reach!("c17_ins_symbolic_params.end");
    std::mem::forget(r); std::mem::forget(db); std::mem::forget(p);
}

/// @harness id=c17_ins_symbolic_continuation props=C17 tier=thorough unwind=48 mem=10 cap=1200
/// `def t(` NEWLINE `XYZ` NEWLINE `):` with X, Y, Z ANY bytes over { a _ space tab = 1 }: the insertion point is the `)`
/// at column 0 of line 3, and a separator is requested iff the middle line holds something.
#[cfg_attr(kani, kani::proof)]
#[cfg_attr(kani, kani::stub(std::path::Path::canonicalize, stubs::canonicalize_err))]
#[cfg_attr(kani, kani::stub(core::unicode::unicode_data::white_space::lookup, stubs::uni_white_space))]
#[cfg_attr(kani, kani::stub(core::slice::memchr::memchr, stubs::memchr_bytewise))]
pub fn c17_ins_symbolic_continuation() {
    let s: [u8; 3] = any();
    assume(s[0] < 6 && s[1] < 6 && s[2] < 6);
    let mut text = String::with_capacity(28);
    text.push_str("def t(\n");
    for k in 0..3 { text.push(param_byte(s[k]) as char); }
    text.push_str("\n):\n    pass\n");
    let blank = |x: u8| x == 2 || x == 3;
    let want = Some((3usize, 0usize, !(blank(s[0]) && blank(s[1]) && blank(s[2]))));
    let db = FixtureDatabase::new();
    let p = PathBuf::from(crate::world::path(crate::world::U));
    note!("insertion point in {:?}", text);
    db.file_cache.insert(p.clone(), Arc::new(text));
    let r = db.get_function_param_insertion_info(&p, 1);
    let got = r.as_ref().map(|i| (i.line, i.char_pos, i.needs_comma));
    note!("got {:?}, expected {:?}", got, want);
    check!("c17.inssc.exact", got == want);
    reach!("c17_ins_symbolic_continuation.end");
    std::mem::forget(r); std::mem::forget(db); std::mem::forget(p);
}

/// @harness id=c17_ins_symbolic_one props=C17 tier=thorough unwind=40 mem=10 cap=1200
/// `def t(X):` with X ANY byte over { a _ space tab = 1 }: the insertion point is the closing parenthesis (column 7) and
/// a separator is requested iff X is not a blank.
#[cfg_attr(kani, kani::proof)]
#[cfg_attr(kani, kani::stub(std::path::Path::canonicalize, stubs::canonicalize_err))]
#[cfg_attr(kani, kani::stub(core::unicode::unicode_data::white_space::lookup, stubs::uni_white_space))]
#[cfg_attr(kani, kani::stub(core::slice::memchr::memchr, stubs::memchr_bytewise))]
pub fn c17_ins_symbolic_one() {
    let s: u8 = any();
    assume(s < 6);
    let mut text = String::with_capacity(24);
    text.push_str("def t(");
    text.push(param_byte(s) as char);
    text.push_str("):\n    pass\n");
    let want = Some((1usize, 7usize, !(s == 2 || s == 3)));
    let db = FixtureDatabase::new();
    let p = PathBuf::from(crate::world::path(crate::world::U));
    note!("insertion point in {:?}", text);
    db.file_cache.insert(p.clone(), Arc::new(text));
    let r = db.get_function_param_insertion_info(&p, 1);
    let got = r.as_ref().map(|i| (i.line, i.char_pos, i.needs_comma));
    note!("got {:?}, expected {:?}", got, want);
    check!("c17.inss1.exact", got == want);
    reach!("c17_ins_symbolic_one.end");
    std::mem::forget(r); std::mem::forget(db); std::mem::forget(p);
}

/// @harness id=c17_ins_more_shapes props=C17 tier=quick unwind=48 mem=8 cap=900
/// Further single-line shapes, executed concretely: an annotated parameter, `*args`, a keyword-only marker, a
/// tuple annotation with brackets, a decorated function (the `def` is on line 2), a nested function (indented `def`
/// on line 2 of an outer function), a lambda default is NOT included (it holds a colon; see c17_ins_known_shapes).
#[cfg_attr(kani, kani::proof)]
#[cfg_attr(kani, kani::stub(std::path::Path::canonicalize, stubs::canonicalize_err))]
#[cfg_attr(kani, kani::stub(core::unicode::unicode_data::white_space::lookup, stubs::uni_white_space))]
#[cfg_attr(kani, kani::stub(core::slice::memchr::memchr, stubs::memchr_bytewise))]
pub fn c17_ins_more_shapes() {
    ins!("c17.insx.annotated", "def test_x(a: int):\n    pass\n", 1);
    ins!("c17.insx.star_args", "def test_x(*args):\n    pass\n", 1);
    ins!("c17.insx.kwonly", "def test_x(a, *, b):\n    pass\n", 1);
    ins!("c17.insx.subscript_annotation", "def test_x(a: Dict[str, int]):\n    pass\n", 1);
    ins!("c17.insx.decorated", "@pytest.mark.slow\ndef test_x(a):\n    pass\n", 2);
    ins!("c17.insx.nested", "def outer():\n    def test_x(a):\n        pass\n", 2);
    reach!("c17_ins_more_shapes.end");
}

/// does the parameter list of the def on `def_line` hold a default (`=` at bracket depth 1, not `==`)?
fn has_default(text: &str, def_line: usize) -> bool {
    let b = text.as_bytes();
    let mut i = 0; let mut line = 1;
    while line < def_line && i < b.len() { if b[i] == b'\n' { line += 1; } i += 1; }
    while i < b.len() && b[i] != b'(' { i += 1; }
    if i >= b.len() { return false; }
    i += 1;
    let mut depth = 1usize;
    while i < b.len() {
        let c = b[i];
        if c == b'(' || c == b'[' || c == b'{' { depth += 1; }
        if c == b')' || c == b']' || c == b'}' { depth -= 1; if depth == 0 { return false; } }
        if c == b'=' && depth == 1 { return true; }
        i += 1;
    }
    false
}

/// @harness id=c17_ins_after_default props=C17 tier=quick unwind=40 mem=8 cap=900
/// `def test_x(a=1):` and `def test_x(a, b=g()):` — a positional parameter appended at the closing parenthesis would
/// follow a defaulted one (`def test_x(a=1, fx):` is a syntax error): the insertion point must lie BEFORE the first
/// defaulted parameter, so it must not be the closing parenthesis.
#[cfg_attr(kani, kani::proof)]
#[cfg_attr(kani, kani::stub(std::path::Path::canonicalize, stubs::canonicalize_err))]
#[cfg_attr(kani, kani::stub(core::unicode::unicode_data::white_space::lookup, stubs::uni_white_space))]
#[cfg_attr(kani, kani::stub(core::slice::memchr::memchr, stubs::memchr_bytewise))]
pub fn c17_ins_after_default() {
    let t1 = "def test_x(a=1):\n    pass\n";
    let t2 = "def test_x(a, b=g()):\n    pass\n";
    let g1 = got_insertion(t1, 1); let g2 = got_insertion(t2, 1);
    let c1 = want_insertion(t1, 1).map(|w| (w.0, w.1)); let c2 = want_insertion(t2, 1).map(|w| (w.0, w.1));
    note!("{:?}: insertion point {:?}, closing parenthesis at {:?}, list holds a default: {}", t1, g1, c1, has_default(t1, 1));
    note!("{:?}: insertion point {:?}, closing parenthesis at {:?}, list holds a default: {}", t2, g2, c2, has_default(t2, 1));
    let ok1 = !(has_default(t1, 1) && g1.map(|g| (g.0, g.1)) == c1);
    let ok2 = !(has_default(t2, 1) && g2.map(|g| (g.0, g.1)) == c2);
    if crate::kf::C17_INSERT_AFTER_DEFAULTED_PARAMETER {
        check!("KF:c17.insd.not_after_default", ok1 && ok2);
    } else {
        check!("c17.insd.not_after_default", ok1 && ok2);
    }
    reach!("c17_ins_after_default.end");
}
