//! C02 — override chains: `def f(f)` in an inner file overrides `f` of an outer provider.
//! Position-based, so texts (and lines) are concrete per arm; the cursor column is symbolic.
use crate::fixtures::{FixtureDatabase, FixtureDefinition, FixtureUsage};
use crate::kx::{any, assume};
use crate::spec;
use crate::world::*;
use std::path::Path;

/// chain links innermost first; every link but the last is `def f(f)`. Link k sits on line 4+k of its file
/// (lines pairwise distinct so `line` identifies a link). A test `def test_x(f)` in U (line 12) and in T2 (line 12).
fn chain_world(order: &[u8], chain: &[u8], multiline_link: Option<usize>) -> World {
    let mut w = World::new(order);
    for (k, &f) in chain.iter().enumerate() {
        let i = w.def(f, "f", 4 + 2 * k);
        if k + 1 < chain.len() { w.defs[i].deps = vec!["f"]; }
        if multiline_link == Some(k) { w.defs[i].multiline = true; }
    }
    if order.contains(&U) { w.test(U, 14, &["f"]); }
    if order.contains(&T2) { w.test(T2, 14, &["f"]); }
    w.with_text = true;
    w
}

/// the definition a usage sitting on line `line` of file `f` belongs to (a fixture's own parameter)
fn owner_of(w: &World, f: u8, line: usize) -> Option<usize> {
    (0..w.defs.len()).find(|&i| w.defs[i].file == f && {
        let d = &w.defs[i];
        if d.multiline { line == d.line + 1 } else { line == d.line }
    })
}

/// Which token of link k's definition line the (concrete) cursor sits on.
#[derive(Clone, Copy, PartialEq)]
pub enum At { Name, Param, ParamEither, ParamNextLine, Elsewhere }

/// ONE position query on chain link `k` (a concrete query costs ~150 s of symbolic execution). The cursor column is
/// concrete; the recorded spans it is compared with are symbolic: the parameter usage's (s, e) and the
/// definition's name span (ds, de), any 0 <= s <= e <= 40.
pub fn chain_cursor(order: &[u8], chain: &[u8], k: usize, at: At) {
    let multiline = at == At::ParamNextLine;
    let w = chain_world(order, chain, if multiline { Some(k) } else { None });
    assume(w.layout_ok());
    let db = build(&w, WITH_USAGES);
    let f = chain[k];
    let p = Path::new(path(f));
    let d = &w.defs[k];
    let has_param = !d.deps.is_empty();
    let (pl, ps, _pe) = if has_param { param_span(d, 0) } else { (0, 0, 0) };
    let s: usize = any(); let e: usize = any();
    assume(s <= e && e <= 40);
    let outward = spec::resolve(&w, f, "f", Some(k)).map(|i| w.defs[i].line);
    match at {
        At::Param | At::ParamNextLine => {
            // recorded span of the parameter usage made symbolic
            { let mut us = db.usages.get_mut(p).unwrap(); for u in us.iter_mut() { if u.line == pl { u.start_char = s; u.end_char = e; } } }
            let col = ps as u32;
            note!("cursor on the parameter of link {} ({} line {}, col {}), recorded span {}..{}, text {:?}", k, path(f), pl, col, s, e, file_text(&w, f));
            let got = db.find_fixture_definition(p, (pl - 1) as u32, col);
            let inside = ps >= s && ps < e;
            if multiline && crate::kf::C02_CONTINUATION_LINE_SELF {
                check!("KF:c02.multiline.goes_outward", !inside || got.as_ref().map(|x| x.line) == outward);
            } else {
                check!("c02.param.goes_outward", !inside || got.as_ref().map(|x| x.line) == outward);
                check!("c02.param.never_self", got.as_ref().map(|x| x.line) != Some(d.line));
            }
            check!("c02.param.outside_span_none", inside || got.is_none());
            std::mem::forget(got);
        }
        At::ParamEither => {
            // the resolver used by go-to-implementation / prepareCallHierarchy must agree with navigation on the parameter
            { let mut us = db.usages.get_mut(p).unwrap(); for u in us.iter_mut() { if u.line == pl { u.start_char = s; u.end_char = e; } } }
            let col = ps as u32;
            note!("(implementation / call hierarchy) cursor on the parameter of link {} ({} line {}, col {}), recorded span {}..{}", k, path(f), pl, col, s, e);
            let either = db.find_fixture_or_definition_at_position(p, (pl - 1) as u32, col);
            let inside = ps >= s && ps < e;
            check!("c02.param.either_goes_outward", !inside || either.as_ref().map(|x| x.line) == outward);
            check!("c02.param.either_never_self", !inside || either.as_ref().map(|x| x.line) != Some(d.line));
            std::mem::forget(either);
        }
        At::Name => {
            // recorded name span of the definition made symbolic
            { let mut ds = db.definitions.get_mut("f").unwrap(); for x in ds.iter_mut() { if x.line == d.line { x.start_char = s; x.end_char = e; } } }
            let col = NAME_START as u32;
            note!("cursor on the name of link {} ({} line {}, col {}), recorded name span {}..{}", k, path(f), d.line, col, s, e);
            let either = db.find_fixture_or_definition_at_position(p, (d.line - 1) as u32, col);
            let inside = NAME_START >= s && NAME_START < e;
            check!("c02.name.either_is_this_link", !inside || either.as_ref().map(|x| x.line) == Some(d.line));
            check!("c02.name.outside_span_none", inside || either.is_none());
            std::mem::forget(either);
        }
        At::Elsewhere => {
            let col = 12u32; // inside `return`
            note!("cursor elsewhere on link {} ({} line {}, col {})", k, path(f), d.line, col);
            let either = db.find_fixture_or_definition_at_position(p, (d.line - 1) as u32, col);
            check!("c02.elsewhere.none", either.is_none());
            std::mem::forget(either);
        }
    }
    reach!("c02.cursor.end");
    std::mem::forget(db); std::mem::forget(w);
}

/// References of chain link `k` == exactly the usages that bind to it (reference model), no duplicates.
/// Definition lines are symbolic here (no position query, so no text is needed).
pub fn chain_refs(order: &[u8], chain: &[u8], k: usize) {
    let mut w = chain_world(order, chain, None);
    w.with_text = false;
    // symbolic definition lines (ascending along the chain, >= 4, gaps for the decorator lines)
    let mut prev = 2usize;
    for i in 0..w.defs.len() { let l: usize = any(); assume(l > prev + 1 && l < 40 + 10 * i); w.defs[i].line = l; prev = l; }
    let tl: usize = any(); assume(tl > prev + 1 && tl < 100);
    for t in w.tests.iter_mut() { t.line = tl; }
    assume(w.layout_ok());
    let db = build(&w, WITH_USAGES);
    let mut uses: Vec<(u8, usize, usize, Option<usize>)> = Vec::with_capacity(8); // file, line, start, binds-to
    for &f in &w.order {
        for u in usages_of_file(&w, f) {
            let own = owner_of(&w, f, u.line);
            uses.push((f, u.line, u.start_char, spec::resolve(&w, f, "f", own)));
        }
    }
    note!("chain {:?} order {:?} lines {:?} uses {:?}", chain, order, w.defs.iter().map(|d| d.line).collect::<Vec<_>>(), uses);
    let d = mk_def(&w.defs[k]);
    let refs = db.find_references_for_definition(&d);
    note!("refs(link {}) = {:?}", k, refs.iter().map(|r| (file_of(&r.file_path), r.line, r.start_char)).collect::<Vec<_>>());
    let want: Vec<(u8, usize, usize)> = uses.iter().filter(|u| u.3 == Some(k)).map(|u| (u.0, u.1, u.2)).collect();
    check!("c02.refs.count", refs.len() == want.len());
    for r in refs.iter() {
        let id = (file_of(&r.file_path), r.line, r.start_char);
        check!("c02.refs.member", want.contains(&id));
    }
    for (a, ra) in refs.iter().enumerate() {
        for rb in refs.iter().skip(a + 1) {
            check!("c02.refs.no_duplicate", !(ra.line == rb.line && ra.start_char == rb.start_char && file_of(&ra.file_path) == file_of(&rb.file_path)));
        }
    }
    reach!("c02.refs.end");
    std::mem::forget(refs); std::mem::forget(d); std::mem::forget(db); std::mem::forget(w);
}

macro_rules! c02_arm {
    ($id:ident, $body:expr) => {
        #[cfg_attr(kani, kani::proof)]
        #[cfg_attr(kani, kani::stub(std::path::Path::exists, crate::stubs::path_exists_false))]
        #[cfg_attr(kani, kani::stub(crate::fixtures::FixtureDatabase::is_fixture_imported_in_file, crate::world::stub_is_imported))]
        #[cfg_attr(kani, kani::stub(core::unicode::unicode_data::alphabetic::lookup, crate::stubs::uni_alphabetic))]
        #[cfg_attr(kani, kani::stub(core::unicode::unicode_data::n::lookup, crate::stubs::uni_numeric))]
        #[cfg_attr(kani, kani::stub(core::slice::memchr::memchr, crate::stubs::memchr_bytewise))]
        pub fn $id() { $body }
    };
}

/// @harness id=c02_near_over_root_param props=C02,C05 tier=quick unwind=30 mem=8 cap=900 gates=worlds
/// chain C1:`def f(f)` over C0:`def f()`, link C1: cursor on the same-named parameter, recorded parameter span symbolic: goes to the next definition outward, never to itself.
c02_arm!(c02_near_over_root_param, chain_cursor(&[C0, C1, U], &[C1, C0], 0, At::Param));
/// @harness id=c02_near_over_root_name props=C02,C05 tier=quick unwind=30 mem=8 cap=900 gates=worlds
/// chain C1:`def f(f)` over C0:`def f()`, link C1: cursor on the function name, recorded name span symbolic: the overriding fixture itself.
c02_arm!(c02_near_over_root_name, chain_cursor(&[C0, C1, U], &[C1, C0], 0, At::Name));

/// @harness id=c02_same_over_near_over_root_param props=C02,C05 tier=quick unwind=30 mem=8 cap=900 gates=worlds
/// chain U over C1 over C0 (registered outermost first), link U: cursor on the same-named parameter, recorded parameter span symbolic: goes to the next definition outward, never to itself.
c02_arm!(c02_same_over_near_over_root_param, chain_cursor(&[C0, C1, U], &[U, C1, C0], 0, At::Param));
/// @harness id=c02_same_over_near_over_root_name props=C02,C05 tier=thorough unwind=30 mem=8 cap=900 gates=worlds
/// chain U over C1 over C0 (registered outermost first), link U: cursor on the function name, recorded name span symbolic: the overriding fixture itself.
c02_arm!(c02_same_over_near_over_root_name, chain_cursor(&[C0, C1, U], &[U, C1, C0], 0, At::Name));

/// @harness id=c02_middle_link_param props=C02,C05 tier=thorough unwind=30 mem=8 cap=900 gates=worlds
/// chain U over C1 over C0 (registered innermost first), middle link C1: cursor on the same-named parameter, recorded parameter span symbolic: goes to the next definition outward, never to itself.
c02_arm!(c02_middle_link_param, chain_cursor(&[U, C1, C0], &[U, C1, C0], 1, At::Param));
/// @harness id=c02_middle_link_name props=C02,C05 tier=thorough unwind=30 mem=8 cap=900 gates=worlds
/// chain U over C1 over C0 (registered innermost first), middle link C1: cursor on the function name, recorded name span symbolic: the overriding fixture itself.
c02_arm!(c02_middle_link_name, chain_cursor(&[U, C1, C0], &[U, C1, C0], 1, At::Name));

/// @harness id=c02_root_over_plugin_param props=C02,C05 tier=thorough unwind=30 mem=8 cap=900 gates=worlds
/// chain C0 over plugin P over third-party V, link C0: cursor on the same-named parameter, recorded parameter span symbolic: goes to the next definition outward, never to itself.
c02_arm!(c02_root_over_plugin_param, chain_cursor(&[V, P, C0, U], &[C0, P, V], 0, At::Param));
/// @harness id=c02_root_over_plugin_name props=C02,C05 tier=thorough unwind=30 mem=8 cap=900 gates=worlds
/// chain C0 over plugin P over third-party V, link C0: cursor on the function name, recorded name span symbolic: the overriding fixture itself.
c02_arm!(c02_root_over_plugin_name, chain_cursor(&[V, P, C0, U], &[C0, P, V], 0, At::Name));

/// @harness id=c02_plugin_over_third_param props=C02,C05 tier=quick unwind=30 mem=8 cap=900 gates=worlds
/// chain P over V, the plugin link: cursor on the same-named parameter, recorded parameter span symbolic: goes to the next definition outward, never to itself.
c02_arm!(c02_plugin_over_third_param, chain_cursor(&[V, P, U], &[P, V], 0, At::Param));
/// @harness id=c02_plugin_over_third_name props=C02,C05 tier=thorough unwind=30 mem=8 cap=900 gates=worlds
/// chain P over V, the plugin link: cursor on the function name, recorded name span symbolic: the overriding fixture itself.
c02_arm!(c02_plugin_over_third_name, chain_cursor(&[V, P, U], &[P, V], 0, At::Name));

/// @harness id=c02_near_over_root_param_either props=C02,C05 tier=quick unwind=30 mem=8 cap=900 gates=worlds
/// chain C1 over C0: the resolver behind go-to-implementation / call hierarchy, cursor on the same-named parameter:
/// must describe the parent, like navigation does.
c02_arm!(c02_near_over_root_param_either, chain_cursor(&[C0, C1, U], &[C1, C0], 0, At::ParamEither));
/// @harness id=c02_near_over_root_elsewhere props=C02 tier=thorough unwind=30 mem=8 cap=900 gates=worlds
/// chain C1 over C0: cursor inside `return` on the def line: nothing.
c02_arm!(c02_near_over_root_elsewhere, chain_cursor(&[C0, C1, U], &[C1, C0], 0, At::Elsewhere));
/// @harness id=c02_outermost_name props=C02 tier=thorough unwind=30 mem=8 cap=900 gates=worlds
/// chain C1 over C0: cursor on the name of the outermost link (no parameter): itself.
c02_arm!(c02_outermost_name, chain_cursor(&[C1, C0, U], &[C1, C0], 1, At::Name));
/// @harness id=c02_multiline_param props=C02 tier=quick unwind=30 mem=8 cap=900 gates=worlds
/// chain C1 over C0 with C1's parameter on the line after `def f(`: cursor on that parameter.
c02_arm!(c02_multiline_param, chain_cursor(&[C0, C1, U], &[C1, C0], 0, At::ParamNextLine));
/// @harness id=c02_refs_innermost props=C02,C04,C12 tier=thorough unwind=24 mem=10 cap=1200
/// chain U over C1 over C0, tests in U and in T2 (sibling directory): references of the innermost link U
/// (only U's test), symbolic lines.
c02_arm!(c02_refs_innermost, chain_refs(&[C0, C1, U, T2], &[U, C1, C0], 0));
/// @harness id=c02_refs_middle props=C02,C04 tier=thorough unwind=24 mem=10 cap=1200
/// same chain: references of the middle link C1 = U's own same-named parameter.
c02_arm!(c02_refs_middle, chain_refs(&[C0, C1, U, T2], &[U, C1, C0], 1));
/// @harness id=c02_refs_outermost props=C02,C04 tier=thorough unwind=24 mem=10 cap=1200
/// same chain: references of the outermost link C0 = C1's parameter and T2's test.
c02_arm!(c02_refs_outermost, chain_refs(&[C0, C1, U, T2], &[U, C1, C0], 2));
/// @harness id=c02_refs_third_party_parent props=C02,C04 tier=thorough unwind=24 mem=10 cap=1200
/// chain C1 over V, tests in U and T2: references of V = C1's parameter and T2's test.
c02_arm!(c02_refs_third_party_parent, chain_refs(&[V, C1, U, T2], &[C1, V], 1));
