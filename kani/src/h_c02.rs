//! C02 — override chains: `def f(f)` in an inner file overrides `f` of an outer provider.
//! Position-based, so texts (and lines) are concrete per arm; the cursor column is symbolic.
use crate::fixtures::{FixtureDatabase, FixtureDefinition, FixtureUsage};
use crate::kx::{any, assume};
use crate::spec;
use crate::world::*;
use std::path::Path;

/// chain links innermost first; every link but the last is `def f(f)`. Link k sits on line 4+k of its file
/// (lines pairwise distinct so `line` identifies a link). A test `def test_x(f)` in U (line 12) and in T2 (line 12).
fn chain_world(order: &[u8], chain: &[u8], multiline_link: Option<usize>) -> World {
    let mut w = World::new(order);
    for (k, &f) in chain.iter().enumerate() {
        let i = w.def(f, "f", 4 + 2 * k);
        if k + 1 < chain.len() { w.defs[i].deps = vec!["f"]; }
        if multiline_link == Some(k) { w.defs[i].multiline = true; }
    }
    if order.contains(&U) { w.test(U, 14, &["f"]); }
    if order.contains(&T2) { w.test(T2, 14, &["f"]); }
    w.with_text = true;
    w
}

/// the definition a usage sitting on line `line` of file `f` belongs to (a fixture's own parameter)
fn owner_of(w: &World, f: u8, line: usize) -> Option<usize> {
    (0..w.defs.len()).find(|&i| w.defs[i].file == f && {
        let d = &w.defs[i];
        if d.multiline { line == d.line + 1 } else { line == d.line }
    })
}

/// Cursor on the `def` line (and, for a multi-line signature, the parameter line) of chain link `k`.
pub fn chain_cursor(order: &[u8], chain: &[u8], k: usize, multiline: bool, cols: [u32; 3]) {
    let w = chain_world(order, chain, if multiline { Some(k) } else { None });
    assume(w.layout_ok());
    let db = build(&w, WITH_USAGES);
    let sel: u8 = any();
    // `def f(f): return 1`: 0 'd', 3 ' ', 4 name, 5 '(', 6 parameter, 7 ')', 12 inside `return`, 40 beyond the line
    match sel { 0 => chain_cursor_at(&w, &db, chain, k, multiline, cols[0]), 1 => chain_cursor_at(&w, &db, chain, k, multiline, cols[1]),
                _ => chain_cursor_at(&w, &db, chain, k, multiline, cols[2]) }
    reach!("c02.cursor.end");
    std::mem::forget(db); std::mem::forget(w);
}
fn chain_cursor_at(w: &World, db: &FixtureDatabase, chain: &[u8], k: usize, multiline: bool, col: u32) {
    let f = chain[k];
    let p = Path::new(path(f));
    let d = &w.defs[k];
    let c = col as usize;
    let outward = spec::resolve(w, f, "f", Some(k)).map(|i| w.defs[i].line);
    note!("link {} in {} line {} multiline={} col={} text={:?}", k, path(f), d.line, multiline, col, file_text(w, f));
    // --- the def line: name span
    let on_name = c >= NAME_START && c < NAME_START + 1;
    let got = db.find_fixture_definition(p, (d.line - 1) as u32, col);
    let either = db.find_fixture_or_definition_at_position(p, (d.line - 1) as u32, col);
    let name = db.find_fixture_at_position(p, (d.line - 1) as u32, col);
    let has_param = !d.deps.is_empty();
    let (pl, ps, pe) = if has_param { param_span(d, 0) } else { (0, 0, 0) };
    let on_param_here = has_param && pl == d.line && c >= ps && c < pe;
    if on_name {
        check!("c02.name.goto_is_not_a_usage", got.is_none());
        check!("c02.name.either_is_this_link", either.as_ref().map(|x| x.line) == Some(d.line));
        check!("c02.name.name", name.as_deref() == Some("f"));
    } else if on_param_here {
        check!("c02.param.goes_outward", got.as_ref().map(|x| x.line) == outward);
        check!("c02.param.never_self", got.as_ref().map(|x| x.line) != Some(d.line));
        check!("c02.param.either_outward", either.as_ref().map(|x| x.line) == outward);
    } else {
        check!("c02.elsewhere.none", got.is_none() && either.is_none());
    }
    // --- multi-line signature: the parameter on the continuation line
    if multiline && has_param {
        let got2 = db.find_fixture_definition(p, (pl - 1) as u32, col);
        let on_param = c >= ps && c < pe;
        if on_param {
            if crate::kf::C02_CONTINUATION_LINE_SELF {
                check!("KF:c02.multiline.goes_outward", got2.as_ref().map(|x| x.line) == outward);
            } else {
                check!("c02.multiline.goes_outward", got2.as_ref().map(|x| x.line) == outward);
            }
        } else {
            check!("c02.multiline.elsewhere_none", got2.is_none());
        }
        std::mem::forget(got2);
    }
    std::mem::forget(got); std::mem::forget(either); std::mem::forget(name);
}

/// References of every chain link == exactly the usages that bind to it (spec), no duplicates; and the
/// tests in U / T2 bind to the innermost visible link.
pub fn chain_refs(order: &[u8], chain: &[u8]) {
    let w = chain_world(order, chain, None);
    assume(w.layout_ok());
    let db = build(&w, WITH_USAGES);
    // all usages of the world with their spec binding
    let mut uses: Vec<(u8, usize, usize, Option<usize>)> = Vec::with_capacity(8); // file, line, start, binds-to
    for &f in &w.order {
        for u in usages_of_file(&w, f) {
            let own = owner_of(&w, f, u.line);
            uses.push((f, u.line, u.start_char, spec::resolve(&w, f, "f", own)));
        }
    }
    note!("chain {:?} order {:?} uses {:?}", chain, order, uses);
    for k in 0..chain.len() {
        let d = mk_def(&w.defs[k]);
        let refs = db.find_references_for_definition(&d);
        let want: Vec<(u8, usize, usize)> = uses.iter().filter(|u| u.3 == Some(k)).map(|u| (u.0, u.1, u.2)).collect();
        check!("c02.refs.count", refs.len() == want.len());
        for r in refs.iter() {
            let id = (file_of(&r.file_path), r.line, r.start_char);
            check!("c02.refs.member", want.contains(&id));
        }
        for (a, ra) in refs.iter().enumerate() {
            for rb in refs.iter().skip(a + 1) {
                check!("c02.refs.no_duplicate", !(ra.line == rb.line && ra.start_char == rb.start_char && file_of(&ra.file_path) == file_of(&rb.file_path)));
            }
        }
        std::mem::forget(refs); std::mem::forget(d);
    }
    // tests bind to the innermost visible link
    for &tf in &[U, T2] {
        if !w.has_file(tf) { continue; }
        let got = db.find_fixture_definition(Path::new(path(tf)), 13, 11);
        let want = spec::resolve(&w, tf, "f", None).map(|i| w.defs[i].line);
        check!("c02.test.binds_innermost", got.as_ref().map(|x| x.line) == want);
        std::mem::forget(got);
    }
    reach!("c02.refs.end");
    std::mem::forget(db); std::mem::forget(w);
}

macro_rules! c02_arm {
    ($id:ident, $body:expr) => {
        #[cfg_attr(kani, kani::proof)]
        #[cfg_attr(kani, kani::stub(std::path::Path::exists, crate::stubs::path_exists_false))]
        #[cfg_attr(kani, kani::stub(crate::fixtures::FixtureDatabase::is_fixture_imported_in_file, crate::world::stub_is_imported))]
        #[cfg_attr(kani, kani::stub(core::unicode::unicode_data::alphabetic::lookup, crate::stubs::uni_alphabetic))]
        #[cfg_attr(kani, kani::stub(core::unicode::unicode_data::n::lookup, crate::stubs::uni_numeric))]
        #[cfg_attr(kani, kani::stub(core::slice::memchr::memchr, crate::stubs::memchr_bytewise))]
        pub fn $id() { $body }
    };
}

/// @harness id=c02_cur_near_over_root props=C02 unwind=30 mem=8 cap=900 gates=worlds
/// chain C1:`def f(f)` over C0:`def f()`; cursor on C1's def line: columns 4 (function name), 6 (parameter), 12 (elsewhere) — symbolic selector, 3 call sites.
c02_arm!(c02_cur_near_over_root, chain_cursor(&[C0, C1, U], &[C1, C0], 0, false, [4, 6, 12]));
/// @harness id=c02_cur_near_over_root_edges props=C02 tier=thorough unwind=30 mem=10 cap=1500 gates=worlds
/// chain C1:`def f(f)` over C0:`def f()`; cursor on C1's def line: columns 5 '(' , 7 ')' and 3 (the space before the name).
c02_arm!(c02_cur_near_over_root_edges, chain_cursor(&[C0, C1, U], &[C1, C0], 0, false, [5, 7, 3]));

/// @harness id=c02_cur_same_over_near_over_root props=C02 unwind=30 mem=8 cap=900 gates=worlds
/// chain U over C1 over C0 (registered outermost first); cursor on U's def line: columns 4 (function name), 6 (parameter), 12 (elsewhere) — symbolic selector, 3 call sites.
c02_arm!(c02_cur_same_over_near_over_root, chain_cursor(&[C0, C1, U], &[U, C1, C0], 0, false, [4, 6, 12]));
/// @harness id=c02_cur_same_over_near_over_root_edges props=C02 tier=thorough unwind=30 mem=10 cap=1500 gates=worlds
/// chain U over C1 over C0 (registered outermost first); cursor on U's def line: columns 5 '(' , 7 ')' and 3 (the space before the name).
c02_arm!(c02_cur_same_over_near_over_root_edges, chain_cursor(&[C0, C1, U], &[U, C1, C0], 0, false, [5, 7, 3]));

/// @harness id=c02_cur_middle_link props=C02 unwind=30 mem=8 cap=900 gates=worlds
/// chain U over C1 over C0 (registered innermost first); cursor on the middle link C1: columns 4 (function name), 6 (parameter), 12 (elsewhere) — symbolic selector, 3 call sites.
c02_arm!(c02_cur_middle_link, chain_cursor(&[U, C1, C0], &[U, C1, C0], 1, false, [4, 6, 12]));
/// @harness id=c02_cur_middle_link_edges props=C02 tier=thorough unwind=30 mem=10 cap=1500 gates=worlds
/// chain U over C1 over C0 (registered innermost first); cursor on the middle link C1: columns 5 '(' , 7 ')' and 3 (the space before the name).
c02_arm!(c02_cur_middle_link_edges, chain_cursor(&[U, C1, C0], &[U, C1, C0], 1, false, [5, 7, 3]));

/// @harness id=c02_cur_root_over_plugin props=C02 unwind=30 mem=8 cap=900 gates=worlds
/// chain C0 over plugin P over third-party V; cursor on C0's def line: columns 4 (function name), 6 (parameter), 12 (elsewhere) — symbolic selector, 3 call sites.
c02_arm!(c02_cur_root_over_plugin, chain_cursor(&[V, P, C0, U], &[C0, P, V], 0, false, [4, 6, 12]));
/// @harness id=c02_cur_root_over_plugin_edges props=C02 tier=thorough unwind=30 mem=10 cap=1500 gates=worlds
/// chain C0 over plugin P over third-party V; cursor on C0's def line: columns 5 '(' , 7 ')' and 3 (the space before the name).
c02_arm!(c02_cur_root_over_plugin_edges, chain_cursor(&[V, P, C0, U], &[C0, P, V], 0, false, [5, 7, 3]));

/// @harness id=c02_cur_plugin_over_third props=C02 unwind=30 mem=8 cap=900 gates=worlds
/// chain P over V; cursor on the plugin's def line: columns 4 (function name), 6 (parameter), 12 (elsewhere) — symbolic selector, 3 call sites.
c02_arm!(c02_cur_plugin_over_third, chain_cursor(&[V, P, U], &[P, V], 0, false, [4, 6, 12]));
/// @harness id=c02_cur_plugin_over_third_edges props=C02 tier=thorough unwind=30 mem=10 cap=1500 gates=worlds
/// chain P over V; cursor on the plugin's def line: columns 5 '(' , 7 ')' and 3 (the space before the name).
c02_arm!(c02_cur_plugin_over_third_edges, chain_cursor(&[V, P, U], &[P, V], 0, false, [5, 7, 3]));

/// @harness id=c02_cur_outermost props=C02 unwind=30 mem=8 cap=900 gates=worlds
/// chain C1 over C0; cursor on the outermost link (no parameter): name => itself, elsewhere nothing: columns 4 (function name), 6 (parameter), 12 (elsewhere) — symbolic selector, 3 call sites.
c02_arm!(c02_cur_outermost, chain_cursor(&[C1, C0, U], &[C1, C0], 1, false, [4, 6, 12]));
/// @harness id=c02_cur_outermost_edges props=C02 tier=thorough unwind=30 mem=10 cap=1500 gates=worlds
/// chain C1 over C0; cursor on the outermost link (no parameter): name => itself, elsewhere nothing: columns 5 '(' , 7 ')' and 3 (the space before the name).
c02_arm!(c02_cur_outermost_edges, chain_cursor(&[C1, C0, U], &[C1, C0], 1, false, [5, 7, 3]));

/// @harness id=c02_cur_multiline props=C02 unwind=30 mem=8 cap=900 gates=worlds
/// chain C1 over C0 with C1's parameter on the line after `def f(`: cursor on both lines: columns 4 (function name), 6 (parameter), 12 (elsewhere) — symbolic selector, 3 call sites.
c02_arm!(c02_cur_multiline, chain_cursor(&[C0, C1, U], &[C1, C0], 0, true, [4, 6, 12]));
/// @harness id=c02_cur_multiline_edges props=C02 tier=thorough unwind=30 mem=10 cap=1500 gates=worlds
/// chain C1 over C0 with C1's parameter on the line after `def f(`: cursor on both lines: columns 5 '(' , 7 ')' and 3 (the space before the name).
c02_arm!(c02_cur_multiline_edges, chain_cursor(&[C0, C1, U], &[C1, C0], 0, true, [5, 7, 3]));

/// @harness id=c02_refs_three_links props=C02,C04 unwind=30 mem=10 cap=1200 gates=worlds
/// chain U over C1 over C0, tests in U and in T2 (sibling directory): references of each link, test binding.
c02_arm!(c02_refs_three_links, chain_refs(&[C0, C1, U, T2], &[U, C1, C0]));
/// @harness id=c02_refs_near_over_third props=C02,C04 unwind=30 mem=10 cap=1200 gates=worlds
/// chain C1 over V, tests in U and T2: T2's test binds to V.
c02_arm!(c02_refs_near_over_third, chain_refs(&[V, C1, U, T2], &[C1, V]));
