//! plsv — harness crate. The repository's sources are *mounted* (compiled into this crate from
//! /repo's working tree); the dependency list is supplied by whichever Cargo.toml builds this file:
//!   /verif/kani   : dashmap/tracing/once_cell renamed to sequential shims (solver build, `cfg(kani)`)
//!   /verif/replay : the real crates (native replay of solver witnesses, fidelity gates)
#![allow(dead_code, unused_imports, unused_variables, unused_macros, clippy::all)]

#[path = "/repo/src/config/mod.rs"]
pub mod config;
#[path = "/repo/src/fixtures/mod.rs"]
pub mod fixtures;
pub use fixtures::{
    CompletionContext, FixtureCycle, FixtureDatabase, FixtureDefinition, FixtureScope,
    FixtureUsage, ParamInsertionInfo, ScopeMismatch, UndeclaredFixture,
};

/// std HashSet/HashMap stand-ins, switched in by the repository's cfg hook (solver build only)
#[cfg(pytest_language_server_verif)]
pub mod verif_collections;
/// the set / map types the mounted repository sources use in this build
pub mod coll {
    #[cfg(pytest_language_server_verif)]
    pub use crate::verif_collections::{HashMap, HashSet};
    #[cfg(not(pytest_language_server_verif))]
    pub use std::collections::{HashMap, HashSet};
}

#[macro_use]
pub mod kx;
pub mod stubs;
pub mod world;
pub mod spec;
pub mod h_kernels;
pub mod h_f1;
pub mod h_c02;
pub mod h_c16;
pub mod h_agree;
pub mod h_hist;
pub mod h_records;
pub mod h_completion;
pub mod h_provk;
pub mod h_cfgk;
pub mod h_scank;
pub mod h_impk;
pub mod h_insk;
pub mod h_dock;
pub mod oracle { include!("gen/oracle.rs"); }

pub mod registry;
pub mod kf { include!("gen/kf.rs"); }
#[cfg(not(kani))]
pub mod gates;
