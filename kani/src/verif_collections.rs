//! Insertion-ordered, Vec-backed stand-ins for `std::collections::{HashSet, HashMap}` (solver build only, switched
//! in by the cfg hook `pytest_language_server_verif` in the repository's `use` lines). std's hashbrown probes with
//! SSE2 group operations that CBMC cannot constant-fold: every lookup unwound the probe loop to the bound and made
//! everything computed afterwards symbolic (a fully concrete `get_available_fixtures` produced a formula > 12 GB).
//! Semantics are those of a set / map; iteration order is insertion order — one of the orders std could produce.
use std::borrow::Borrow;

// The repository's hook imports this module by glob (`use crate::verif_collections::*;`), so that a change which
// widens a `use std::collections::{..}` line (a new HashMap memo, a BTreeMap, a VecDeque) still compiles in the solver
// build: everything that is not replaced by a stand-in is std's own.
pub use std::collections::{btree_map, btree_set, BTreeMap, BTreeSet, BinaryHeap, LinkedList, VecDeque};

#[derive(Clone, Debug)]
pub struct HashSet<T> { items: Vec<T> }
impl<T> Default for HashSet<T> { fn default() -> Self { HashSet { items: Vec::with_capacity(8) } } }
impl<T: PartialEq> PartialEq for HashSet<T> {
    fn eq(&self, o: &Self) -> bool { self.items.len() == o.items.len() && self.items.iter().all(|x| o.items.contains(x)) }
}
impl<T: Eq> HashSet<T> {
    pub fn new() -> Self { Self::default() }
    pub fn with_capacity(n: usize) -> Self { HashSet { items: Vec::with_capacity(n.max(8)) } }
    pub fn len(&self) -> usize { self.items.len() }
    pub fn is_empty(&self) -> bool { self.items.is_empty() }
    pub fn clear(&mut self) { self.items.clear(); }
    pub fn contains<Q: ?Sized + Eq>(&self, v: &Q) -> bool where T: Borrow<Q> { self.items.iter().any(|x| x.borrow() == v) }
    pub fn get<Q: ?Sized + Eq>(&self, v: &Q) -> Option<&T> where T: Borrow<Q> { self.items.iter().find(|x| (*x).borrow() == v) }
    pub fn insert(&mut self, v: T) -> bool { if self.items.contains(&v) { false } else { self.items.push(v); true } }
    pub fn remove<Q: ?Sized + Eq>(&mut self, v: &Q) -> bool where T: Borrow<Q> {
        match self.items.iter().position(|x| x.borrow() == v) { Some(i) => { self.items.remove(i); true } None => false }
    }
    pub fn iter(&self) -> std::slice::Iter<'_, T> { self.items.iter() }
    pub fn retain(&mut self, f: impl FnMut(&T) -> bool) { self.items.retain(f); }
    pub fn is_subset(&self, o: &Self) -> bool { self.items.iter().all(|x| o.items.contains(x)) }
    pub fn difference<'a>(&'a self, o: &'a Self) -> impl Iterator<Item = &'a T> { self.items.iter().filter(move |x| !o.items.contains(x)) }
    pub fn union<'a>(&'a self, o: &'a Self) -> impl Iterator<Item = &'a T> { self.items.iter().chain(o.items.iter().filter(move |x| !self.items.contains(x))) }
    pub fn intersection<'a>(&'a self, o: &'a Self) -> impl Iterator<Item = &'a T> { self.items.iter().filter(move |x| o.items.contains(x)) }
    pub fn drain(&mut self) -> std::vec::Drain<'_, T> { self.items.drain(..) }
}
impl<T: Eq> Extend<T> for HashSet<T> { fn extend<I: IntoIterator<Item = T>>(&mut self, it: I) { for x in it { self.insert(x); } } }
impl<'a, T: Eq + Copy + 'a> Extend<&'a T> for HashSet<T> { fn extend<I: IntoIterator<Item = &'a T>>(&mut self, it: I) { for x in it { self.insert(*x); } } }
impl<T: Eq> FromIterator<T> for HashSet<T> { fn from_iter<I: IntoIterator<Item = T>>(it: I) -> Self { let mut s = Self::new(); s.extend(it); s } }
impl<T> IntoIterator for HashSet<T> { type Item = T; type IntoIter = std::vec::IntoIter<T>; fn into_iter(self) -> Self::IntoIter { self.items.into_iter() } }
impl<'a, T> IntoIterator for &'a HashSet<T> { type Item = &'a T; type IntoIter = std::slice::Iter<'a, T>; fn into_iter(self) -> Self::IntoIter { self.items.iter() } }
impl<T: Eq, const N: usize> From<[T; N]> for HashSet<T> { fn from(a: [T; N]) -> Self { a.into_iter().collect() } }

#[derive(Clone, Debug)]
pub struct HashMap<K, V> { items: Vec<(K, V)> }
impl<K, V> Default for HashMap<K, V> { fn default() -> Self { HashMap { items: Vec::with_capacity(8) } } }
impl<K: Eq, V> HashMap<K, V> {
    pub fn new() -> Self { Self::default() }
    pub fn with_capacity(n: usize) -> Self { HashMap { items: Vec::with_capacity(n.max(8)) } }
    pub fn len(&self) -> usize { self.items.len() }
    pub fn is_empty(&self) -> bool { self.items.is_empty() }
    pub fn clear(&mut self) { self.items.clear(); }
    fn pos<Q: ?Sized + Eq>(&self, k: &Q) -> Option<usize> where K: Borrow<Q> { self.items.iter().position(|(x, _)| x.borrow() == k) }
    pub fn contains_key<Q: ?Sized + Eq>(&self, k: &Q) -> bool where K: Borrow<Q> { self.pos(k).is_some() }
    pub fn get<Q: ?Sized + Eq>(&self, k: &Q) -> Option<&V> where K: Borrow<Q> { self.pos(k).map(|i| &self.items[i].1) }
    pub fn get_mut<Q: ?Sized + Eq>(&mut self, k: &Q) -> Option<&mut V> where K: Borrow<Q> { match self.pos(k) { Some(i) => Some(&mut self.items[i].1), None => None } }
    pub fn insert(&mut self, k: K, v: V) -> Option<V> {
        match self.pos(&k) { Some(i) => Some(std::mem::replace(&mut self.items[i].1, v)), None => { self.items.push((k, v)); None } }
    }
    pub fn remove<Q: ?Sized + Eq>(&mut self, k: &Q) -> Option<V> where K: Borrow<Q> { self.pos(k).map(|i| self.items.remove(i).1) }
    pub fn entry(&mut self, k: K) -> Entry<'_, K, V> { let idx = self.pos(&k); Entry { map: self, key: Some(k), idx } }
    pub fn iter(&self) -> impl Iterator<Item = (&K, &V)> { self.items.iter().map(|(k, v)| (k, v)) }
    pub fn iter_mut(&mut self) -> impl Iterator<Item = (&K, &mut V)> { self.items.iter_mut().map(|(k, v)| (&*k, v)) }
    pub fn keys(&self) -> impl Iterator<Item = &K> { self.items.iter().map(|(k, _)| k) }
    pub fn values(&self) -> impl Iterator<Item = &V> { self.items.iter().map(|(_, v)| v) }
    pub fn values_mut(&mut self) -> impl Iterator<Item = &mut V> { self.items.iter_mut().map(|(_, v)| v) }
    pub fn into_keys(self) -> impl Iterator<Item = K> { self.items.into_iter().map(|(k, _)| k) }
    pub fn into_values(self) -> impl Iterator<Item = V> { self.items.into_iter().map(|(_, v)| v) }
    pub fn retain(&mut self, mut f: impl FnMut(&K, &mut V) -> bool) { self.items.retain_mut(|(k, v)| f(k, v)); }
}
/// plain struct (no enum holding the key, see shims/dashmap-seq)
pub struct Entry<'a, K, V> { map: &'a mut HashMap<K, V>, key: Option<K>, idx: Option<usize> }
impl<'a, K: Eq, V> Entry<'a, K, V> {
    pub fn or_insert_with(self, f: impl FnOnce() -> V) -> &'a mut V {
        let Entry { map, key, idx } = self;
        let i = match idx { Some(i) => i, None => { map.items.push((key.unwrap(), f())); map.items.len() - 1 } };
        &mut map.items[i].1
    }
    pub fn or_insert(self, v: V) -> &'a mut V { self.or_insert_with(|| v) }
    pub fn or_default(self) -> &'a mut V where V: Default { self.or_insert_with(V::default) }
    pub fn and_modify(self, f: impl FnOnce(&mut V)) -> Self { if let Some(i) = self.idx { f(&mut self.map.items[i].1); } self }
}
impl<K: Eq, V> Extend<(K, V)> for HashMap<K, V> { fn extend<I: IntoIterator<Item = (K, V)>>(&mut self, it: I) { for (k, v) in it { self.insert(k, v); } } }
impl<K: Eq, V> FromIterator<(K, V)> for HashMap<K, V> { fn from_iter<I: IntoIterator<Item = (K, V)>>(it: I) -> Self { let mut m = Self::new(); m.extend(it); m } }
impl<K, V> IntoIterator for HashMap<K, V> { type Item = (K, V); type IntoIter = std::vec::IntoIter<(K, V)>; fn into_iter(self) -> Self::IntoIter { self.items.into_iter() } }
impl<'a, K, V> IntoIterator for &'a HashMap<K, V> {
    type Item = (&'a K, &'a V);
    type IntoIter = std::iter::Map<std::slice::Iter<'a, (K, V)>, fn(&'a (K, V)) -> (&'a K, &'a V)>;
    fn into_iter(self) -> Self::IntoIter { fn split<'b, K, V>(p: &'b (K, V)) -> (&'b K, &'b V) { (&p.0, &p.1) } self.items.iter().map(split::<K, V> as fn(&'a (K, V)) -> (&'a K, &'a V)) }
}
impl<K: Eq, V, Q: ?Sized + Eq> std::ops::Index<&Q> for HashMap<K, V> where K: Borrow<Q> { type Output = V; fn index(&self, k: &Q) -> &V { self.get(k).expect("no entry found for key") } }
