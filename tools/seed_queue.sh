#!/bin/bash
# seed_queue.sh <file with lines: seed property harnesses tier>
while read -r seed prop only tier; do
  [ -z "$seed" ] && continue
  PLSV_JOBS=${PLSV_JOBS:-2} /verif/tools/seedrun.sh "$seed" "$prop" "$only" "$tier" > /tmp/seedrun-$seed.out 2>&1
done < "$1"
echo QUEUE-DONE "$1" >> /tmp/seedq.done
