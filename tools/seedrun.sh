#!/bin/bash
# seedrun.sh <seed-id> <property> [harness,harness,...] [tier]
# Runs the check of <property> against the seeded change <seed-id> on a SCRATCH copy: a git worktree of /repo with the
# patch applied, and a copy of /verif whose mounted source paths point at that worktree (own build + out dirs), so that
# several seeds can be evaluated in parallel and /repo itself stays untouched. Verdict lines are appended to
# /verif/seeded/<seed-id>/runs.log. (The final confirmation of a detection can be repeated on /repo itself:
# git -C /repo apply <patch>; ./check <property>; git -C /repo checkout -- .)
set -u
SEED=$1; PROP=$2; ONLY=${3:-}; TIER=${4:-quick}
S=/verif/seeded/$SEED
R=/tmp/sr-$SEED-$PROP
rm -rf $R; mkdir -p $R
git -C /repo worktree add -q --detach $R/repo HEAD || exit 9
# the seeds were authored on the original snapshot; /repo has since received hook and fix commits, so fall back to a
# fuzzy apply where only the context moved (recorded in runs.log)
FUZZ=""
git -C $R/repo apply $S/patch.diff 2>/dev/null || { (cd $R/repo && patch -p1 -F3 --no-backup-if-mismatch < $S/patch.diff > $R/patch.log 2>&1) && FUZZ=" (applied with patch -F3)" || { echo "=== $(date -u +%FT%TZ) seed=$SEED patch does not apply on the current /repo HEAD" >> $S/runs.log; git -C /repo worktree remove --force $R/repo; rm -rf $R; exit 9; }; }
rsync -a --exclude .build --exclude .build2 --exclude out --exclude .git --exclude seeded --exclude evidence /verif/ $R/verif/
sed -i "s|\"/repo/src|\"$R/repo/src|g" $R/verif/kani/src/lib.rs $R/verif/astgen/src/main.rs
cd $R/verif
ARGS="$PROP --tier $TIER"
[ -n "$ONLY" ] && ARGS="$ARGS --only $ONLY"
PLSV_REPO=$R/repo PLSV_BUILD=$R/build PLSV_JOBS=${PLSV_JOBS:-4} ./check $ARGS > $R/log.txt 2>&1
RC=$?
{
  echo "=== $(date -u +%FT%TZ) seed=$SEED check=\"./check $ARGS\" exit=$RC (scratch copy: repo worktree of $(git -C /repo rev-parse --short HEAD) + patch$FUZZ)"
  grep -E "^(VIOLATION|KNOWN-FINDING|INCONCLUSIVE|UNDECIDED|NOTE)|^  harness=|^\[" $R/log.txt | cut -c1-400
} >> $S/runs.log
mkdir -p $S/witness
for w in $(grep -oE "replay=\S+" $R/log.txt | cut -d= -f2); do cp $w $S/witness/ 2>/dev/null; done
cd /
git -C /repo worktree remove --force $R/repo
rm -rf $R
exit $RC
