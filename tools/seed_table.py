#!/usr/bin/env python3
"""Summarise seeded/<id>/runs.log into a markdown table (for DESIGN.md §9.5) and update meta.json.detected_by"""
import os, re, json
S="/verif/seeded"
plan={}
for l in open("/verif/tools/seed_plan.txt"):
    if l.startswith("#") or not l.strip(): continue
    seed,prop,only,tier=l.split()
    plan[seed]=(prop,only,tier)
rows=[]
for sid in sorted(os.listdir(S)):
    d=os.path.join(S,sid)
    meta=json.load(open(os.path.join(d,"meta.json")))
    log=os.path.join(d,"runs.log")
    verdict="not run"; detail=""
    if os.path.exists(log):
        txt=open(log).read()
        runs=txt.split("=== ")[1:]
        det=[];und=[];inc=[]
        for r in runs:
            chk=re.search(r'check="([^"]*)" exit=(\d+)', r)
            for m in re.finditer(r"^\s+harness=(\S+) obligation=(\S+)", r, re.M): det.append((m.group(1), m.group(2), chk.group(1) if chk else ""))
            for m in re.finditer(r"^UNDECIDED .* harness=(\S+)", r, re.M): und.append(m.group(1))
            for m in re.finditer(r"^INCONCLUSIVE \S+ (\S+):", r, re.M): inc.append(m.group(1))
        if det:
            verdict="**caught**"; detail="; ".join(sorted({f"`{h}` ({o})" for h,o,_ in det}))
            meta["detected_by"]=[{"harness":h,"obligation":o,"check":c} for h,o,c in det]
        elif inc:
            verdict="inconclusive"; detail=", ".join(sorted(set(inc)))
        elif und:
            verdict="undecided (cap)"; detail=", ".join(sorted(set(und)))
        elif runs:
            verdict="missed"; detail="ran: "+", ".join(sorted({re.search(r'check="([^"]*)"',r).group(1) for r in runs if re.search(r'check="([^"]*)"',r)}))
    p=plan.get(sid,("","",""))
    if p[0]=="ATTEMPT" and verdict=="not run":
        verdict="missed (out of solver reach)"; detail=f"would need `{p[1]}` (props=ATTEMPT: real AST under the symbolic executor); the harness catches it NATIVELY via ./check --replay"
    json.dump(meta,open(os.path.join(d,"meta.json"),"w"),indent=1)
    rows.append((sid,meta["property"],meta["needs_to_manifest"][:110],verdict,detail))
print("| seeded change | property | needs to manifest | verdict | by / why |")
print("|---|---|---|---|---|")
for r in rows: print("| "+" | ".join(r)+" |")
