#!/usr/bin/env python3
"""Summarise seeded/<id>/runs.log into a markdown table (DESIGN.md §9.5) and update meta.json.detected_by.

Verdict of a seed = "caught" if any run (with the harness set named in the run) ended in a VIOLATION line naming a
harness + obligation; otherwise the verdict of the LAST run (undecided / inconclusive / missed); seeds whose only
relevant harnesses are props=ATTEMPT (out of solver reach) are listed as such. WHY explains the non-detections."""
import os, re, json
S = "/verif/seeded"
WHY = {
 "C12-available-cache-alias-insert-under-guard": "(see runs; harness c12_available_alias was written for this seed: alias spelling known to the canonical-path cache, empty world)",
 "C20-counts-cache-before-selfref-stores-parent": "lean arm c20_lean_usage_below_override (override def f(f) with a test(f) below it in the same file) was added for this seed but hits the 1500 s wall cap — three resolver calls on PathBuf-keyed state; registered in the thorough tier, undecided",
 "C14-relative-import-stdlib-check-before-dots": "change is in extract_fixture_imports (which import statements of the syntax tree count as fixture imports): an AST walk, outside the module-to-file kernel C14 is claimed for",
 "C13-walk-canonical-root-strip-as-given": "changes the ROOT the walker is started on, outside the two extracted blocks; the extraction refuses to model it (contract anchor `WalkDir::new(root_path)` missing) and the check exits 2 (INCONCLUSIVE) — not silently passed, but not counted as a detection",
 "C13-imported-modules-all-or-nothing-batch": "change is in scan_imported_fixture_modules (parallel file reads: file system + rayon), not encoded; C13 is claimed for the per-path decision only",
 "C01-relative-import-stdlib-name": "change is in extract_fixture_imports (imports.rs: which import statements of the syntax tree count) — an AST walk; the import relation is an oracle in the solver build and C14 is claimed for the module-to-file step only",
 "C07-imported-cache-ignores-content": "change is in the imported-fixtures cache (imports.rs); `get_imported_fixtures` is replaced by the import oracle in the solver build",
 "C07-version-bump-only-on-nameset-change": "needs a re-analysis whose NEW text has statements (real AST: out of reach); the native fidelity gate `seed` trips on it (exit 2, INCONCLUSIVE) — not counted as a detection",
 "C10-fresh-skips-canonicalisation": "`Path::canonicalize` is an identity stand-in in the solver build (symlinks do not exist there)",
 "C12-lazy-index-under-read-guard": "change is in imports.rs (lazy indexing inside the import walk): oracle in the solver build",
 "C12-plugins-cycle-fresh-visited": "change is in imports.rs (pytest_plugins cycle): oracle in the solver build",
 "C03-docstring-dedent-ws-only-lines": "(see runs)",
 "C03-yield-line-toplevel-first": "find_yield_line walks the syntax tree (out of reach); C03 is claimed for the docstring kernel only; caught natively by the ATTEMPT harness",
 "C17-available-first-conftest-decides": "warning half of C17 (AST walk over function bodies) is out of reach; C17 is claimed for the insertion point only",
 "C17-module-names-seeded-line0": "warning half of C17 (AST walk over function bodies) is out of reach; C17 is claimed for the insertion point only",
 "C15-line-index-cache-weak-key": "needs analyze_file on a > 256-byte document with statements (real AST)",
 "C18-signature-end-window": "get_completion_context walks the AST; the patch no longer applies after fix 3ac243a rewrote the same lines",
 "C11-insertion-paren-order": "harness k_insertion_bytes withdrawn (text search over lines of unknown length never reaches the SAT back end)",
 "C11-stale-span-byte-slice": "harnesses k_stale_spans_* withdrawn (spurious std-internal counterexamples, §9.6)",
 "C16-dfs-shared-path": "needs a three-name graph; the multi-name cycle arms exceed the memory cap (10-14 GB) — undecided, honestly reported",
 "C08-refs-per-directory-memo": "inverse-relation arm c04_inv_sibling_first exceeds 12 GB — undecided",
 "C04-refs-memo-before-selfref": "inverse-relation arm c04_inv_usage_above_override exceeds 12 GB — undecided",
 "C02-refs-memo-before-selfref": "same arm as above — undecided",
 "C20-counts-cache-before-selfref": "arm c20_unused_usage_above_override exceeds 14 GB — undecided",
 "C05-available-imports-after-direct": "arm c05_near_import_vs_root_def exceeds 10 GB — undecided",
 "C18-plugin-stage-admits-third-party": "arm c05_plugin_third is decided on the unchanged tree (quick tier) but ran into the wall cap with the change applied (scratch run shared the machine with two other queues)",
 "C19-version-bump-once-per-reanalysis": "change is in analyzer.rs (version bump when definitions are RECORDED): needs a re-analysis with statements (real AST); C19 is claimed for the configuration half only",
 "C18-available-shared-visited-across-levels": "change poisons the imported-fixtures cache through a diamond import: import walk is an oracle in the solver build",
}
plan = {}
for l in open("/verif/tools/seed_plan.txt"):
    if l.startswith("#") or not l.strip():
        continue
    seed, prop, only, tier = l.split()
    plan[seed] = (prop, only, tier)
rows = []
n_caught = 0
for sid in sorted(os.listdir(S)):
    d = os.path.join(S, sid)
    meta = json.load(open(os.path.join(d, "meta.json")))
    log = os.path.join(d, "runs.log")
    verdict, detail = "not run", ""
    if os.path.exists(log):
        runs = open(log).read().split("=== ")[1:]
        det = []
        last = None
        for r in runs:
            chk = re.search(r'check="([^"]*)" exit=(\d+)', r)
            d1 = [(m.group(1), m.group(2), chk.group(1) if chk else "") for m in re.finditer(r"^\s+harness=(\S+) obligation=(\S+)", r, re.M)]
            det += d1
            und = re.findall(r"^UNDECIDED .* harness=(\S+)", r, re.M)
            inc = re.findall(r"^INCONCLUSIVE \S+ (.*)$", r, re.M)
            if d1:
                last = ("caught", "")
            elif "patch does not apply" in r:
                last = ("patch no longer applies", "")
            elif inc:
                last = ("inconclusive (exit 2)", inc[0][:80])
            elif und:
                last = ("undecided (cap)", ", ".join(sorted(set(und))))
            else:
                last = ("missed", chk.group(1) if chk else "")
        if det:
            verdict = "**caught**"
            detail = "; ".join(sorted({f"`{h}` ({o})" for h, o, _ in det}))
            meta["detected_by"] = [{"harness": h, "obligation": o, "check": c} for h, o, c in det]
            n_caught += 1
        elif last:
            verdict, detail = last
            meta["detected_by"] = None
    p = plan.get(sid, ("", "", ""))
    if p[0] == "ATTEMPT" and verdict in ("not run", "patch no longer applies"):
        verdict = "missed (out of solver reach)"
    if verdict != "**caught**" and sid in WHY:
        detail = WHY[sid]
    json.dump(meta, open(os.path.join(d, "meta.json"), "w"), indent=1)
    rows.append((sid, meta["property"], meta["needs_to_manifest"][:120], verdict, detail))
print(f"{n_caught} of {len(rows)} seeded changes are caught by a registered check (VIOLATION line, exit 1).\n")
print("| seeded change | property | needs to manifest | verdict | by which harness (obligation) / why not |")
print("|---|---|---|---|---|")
for r in rows:
    print("| " + " | ".join(r) + " |")
