#!/bin/bash
# run the quick check of every claimed property, one after the other; summary in .build/runall.log
cd /verif
: > .build/runall.log
for p in "$@"; do
  s=$(date +%s)
  PLSV_JOBS=${PLSV_JOBS:-12} ./check $p > .build/$p.log 2>&1
  rc=$?
  e=$(( $(date +%s) - s ))
  echo "$p exit=$rc wall=${e}s $(grep -E '^\[' .build/$p.log | tail -1)" >> .build/runall.log
  grep -E "^(VIOLATION|KNOWN-FINDING|INCONCLUSIVE|UNDECIDED|NOTE)" .build/$p.log | cut -c1-200 >> .build/runall.log
done
echo ALLDONE >> .build/runall.log
