#!/usr/bin/env python3
"""Regenerates /verif/MANIFEST.json from the table below (kept in one place so it is always valid)."""
import json, os
V = os.path.dirname(os.path.dirname(os.path.abspath(__file__)))

TECH = "bounded symbolic execution of the real Rust code (Kani 0.68 codegen -> CBMC 6.11 / CaDiCaL, unwinding assertions on); every counterexample replayed natively against the real dependency set"
COMMON_NOTE = " Trusted base: sequential dashmap/tracing/once_cell shims in the solver build (real crates in replay), environment stubs listed per harness in the evidence, rustpython parser replaced by an oracle generated from the real parser's output and re-checked natively (gate `oracle`). Handler code written inline in src/providers/*.rs and src/main.rs is outside the encoded program."
CLAIMED = {
 "C01": ("DESIGN.md §4 C01, §9", "Bounded model checking of the real resolver cascade (find_closest_definition) and position lookup (find_fixture_definition): one SAT query per layout arm decides the comparison with an independent model of pytest's lookup for every value of the symbolic attributes (definition lines, import bits and statement form, third-party-is-plugin flag, recorded usage spans). Exhaustive inside each arm; the arm list (registration orders x providers, depth <= 3 conftest levels) is finite and listed in the evidence.",
         "Import relation is an oracle in the solver build (the import walk is C14, not applicable) and the real walk in native replay; cursor columns are concrete per harness (a symbolic column could not be decided), recorded spans symbolic." + COMMON_NOTE),
 "C02": ("DESIGN.md §4 C02, §9", "Override chains (length 2..3 over same file / conftest levels / plugin / third-party): one position query per harness on the real find_fixture_definition / find_fixture_or_definition_at_position with the recorded parameter / name span symbolic, plus find_references_for_definition of every link against the reference binding; decided by CBMC per arm.",
         "Chains of length <= 3, concrete generated texts, one concrete cursor column per harness." + COMMON_NOTE),
 "C04": ("DESIGN.md §4 C04, §9", "Cross-check of two real code paths per world: a usage is listed by find_references_for_definition(D) iff find_fixture_definition on it lands on D, no duplicates, unresolved usages nowhere; reverse index == usages after analyze_file histories; CLI unused list vs reference sets. Lean arms (one call of the real find_references_for_definition on a concrete world, compared with the reference lookup of pytest's rules): override-with-usage-above and sibling-registered-first layouts.",
         "Worlds: shadowing, override, sibling-first and usage-above-override layouts; go-to-definition on a recorded usage is the call sequence find_fixture_definition performs after locating the usage; reverse-index histories use the empty text for the real analysis step; code-lens / call-hierarchy formatting (handlers) not encoded." + COMMON_NOTE),
 "C05": ("DESIGN.md §4 C05, §9", "Cross-check without reference model: for each world arm the definition picked by navigation (find_closest_definition), outgoing calls (resolve_fixture_for_file), implementation/prepare (find_fixture_or_definition_at_position) and the entry in get_available_fixtures are compared for every value of the symbolic attributes; at most one entry per name. Lean arm: one call of the real get_available_fixtures on the concrete import-vs-root layout compared with the reference lookup.",
         "std HashSet inside compute_available_fixtures limits worlds to one fixture name; get_imported_fixtures replaced by the import oracle." + COMMON_NOTE),
 "C06": ("DESIGN.md §4 C06, §9", "Histories through the real analyze_file: the first version's state is put into the index from what a fresh index records for it (generated natively from the current tree), then the REAL analyze_file re-analyses the file with a second version; every map's records for the file (definitions, reverse definition index, usages, reverse usage index, imports) must equal a fresh index on the new version. Each history is one fully concrete symbolic execution (no symbolic input: a selector over two re-analyses did not fit into 14 GB).",
         "Second versions are restricted to the empty text and a comment-only text (cleanup of everything the first version recorded: rename/removal of fixtures, of usages, same name defined twice); second versions with real statements put a non-trivial AST under the symbolic executor and did not finish (kept under props=ATTEMPT). First versions: C_F, C_FF, C_F_MOVED, C_SCOPED, U_TG." + COMMON_NOTE),
 "C07": ("DESIGN.md §4 C07, §9", "Warm vs cold: conftest in the index, per-file view warmed, then the REAL analyze_file removes its definitions (empty text): the warm answer of get_available_fixtures must equal the answer after dropping every cache; closing the conftest (cleanup_file_cache) leaves resolution and the per-file view unchanged.",
         "Edits whose new text has real statements are out of solver reach (props=ATTEMPT); the eviction threshold (2000 files) is not reachable; import-only edits need the import walk (C14)." + COMMON_NOTE),
 "C08": ("DESIGN.md §4 C08, §9", "Registration-order independence: the same content built in two registration orders gives the same resolution (pairs of orders per content, attributes symbolic), plus every C01 arm that exists in several orders and the C16 order pairs.",
         "Orders are the listed pairs/arms (all 6 orders for the three-conftest chain in the thorough tier); hash-seed dependent std HashMap iteration inside cycle detection is exercised with one fixed seed only." + COMMON_NOTE),
 "C10": ("DESIGN.md §4 C10, §9", "The two SERIAL orders of {scan worker: analyze_file_fresh(F, disk)} and {didOpen: analyze_file(F, buffer)} followed by one further change: the index must describe the buffer exactly once (compared with fresh-state expectations); the state before the real call is seeded from the fresh-index data.",
         "The text handed to the REAL call is the empty / comment-only text (non-trivial ASTs are out of solver reach): open(buffer with definitions and a usage) then scan(empty disk file), and scan(disk with definitions) then open(empty buffer). Interleavings inside an analysis are not explored (no concurrency model, same reason as C09); symlinked paths are outside (Path::canonicalize stubbed)." + COMMON_NOTE),
 "C11": ("DESIGN.md §4 C11, §9", "Panic-freedom of the string/offset kernels applied to untrusted or stale data, decided by CBMC over symbolic bytes (any valid UTF-8 up to 3-4 bytes, template classes with multi-byte characters, symbolic alphabets) and unconstrained offsets; Rust's own panics, bounds and overflow checks are the assertion.",
         "Library kernels only (extract_word_at_position, parameter_has_annotation, format_docstring, line index arithmetic, get_function_param_insertion_info, position queries on stale spans, completion text fallback); text lengths as stated per harness." + COMMON_NOTE),
 "C12": ("DESIGN.md §4 C12, §9", "Lock discipline: the sequential DashMap stand-in asserts in every write-locking operation that no guard of the same map is live on the calling path (shard-independent statement) — active in every harness of every family; termination: unwinding assertions on compute_fixture_cycles over cyclic dependency graphs and on the conftest walk.",
         "Single-threaded paths only (no lock-order inversion across threads); import-graph cycles need the import walk (C14)." + COMMON_NOTE),
 "C13": ("DESIGN.md §4 C13, §9.8", "The per-path decision of scan_workspace_with_excludes — the text of its filter_entry predicate (which directories are descended into) and of its walk-loop body (which yielded files are kept) is extracted from the current tree at every run and executed through CBMC; the directory walk itself is replaced by its contract (an entry is yielded iff the predicate accepted the root and every directory above it). Decided on concrete rows: the three file-name forms and their near misses; ignored directories (VCS, virtualenv, cache, build, *.egg-info) at depth 1 and 2 versus names that merely resemble them; RELOCATION — the same root-relative file is indexed whether the root is /w, /home/u/w, lies below a directory carrying an ignored name, or is itself so named; exclude patterns matched against root-relative paths, also after relocation.",
         "Concrete rows (each row is one execution of the real blocks; a fully symbolic 9-byte file name was not decided in 40 min and is kept as props=ATTEMPT); the walk (walkdir, FFI), unreadable / non-UTF-8 files (phase 2), the modules pulled in by imports (C14) and the 'site-packages' substring classification are NOT encoded; path components are ASCII (core::str::from_utf8 replaced by an ASCII-assuming stand-in in these harnesses, see evidence)." + COMMON_NOTE),
 "C15": ("DESIGN.md §4 C15, §9", "Recorded positions, kernels only: line-index arithmetic (get_line_from_offset / get_char_position_from_offset) against its specification for every strictly increasing index (<= 4 lines) and every offset; find_function_name_position on def-line templates (plain, async, indented, tab) compared with the true token span; the providers' line / range helpers (internal_line_to_lsp, lsp_line_to_internal, create_range, create_point_range; text extracted from src/providers/mod.rs at every run) for every u32 / usize argument.",
         "The spans the analyzer records for usages (UTF-16 columns, string-literal forms) need analyze_file on non-trivial ASTs and are out of solver reach (harnesses kept under props=ATTEMPT; the defects they show natively are listed in DESIGN.md §9.4); the call sites that pass spans to create_range in the handlers are outside." + COMMON_NOTE),
 "C16": ("DESIGN.md §4 C16, §9", "Cycle and scope-mismatch diagnostics of the real detect_fixture_cycles / detect_scope_mismatches_in_file against a reference dependency graph whose edges are resolved per depending file; all 25 scope pairs and definition lines symbolic per graph arm; both registration orders.",
         "<= 3 fixture names, <= 3 definitions per arm (std HashMap/HashSet cost); one fixed hash seed." + COMMON_NOTE),
 "C18": ("DESIGN.md §4 C18, §9", "Offered set, two halves. (1) Visible set: for each world arm the per-file view get_available_fixtures has at most one entry per name and that entry is the definition navigation resolves to (shared with C05; symbolic lines, import bit, third-party-is-plugin flag). (2) Filter algebra and ordering of src/providers/completion.rs (text of is_fixture_excluded / should_exclude_fixture / fixture_sort_priority / filter_and_enrich_fixtures extracted from the current tree at every run): excluded <=> being edited, or already declared, or (inside a fixture) of narrower scope — decided for every candidate name over {a,b,c}, scope, origin flags, declared list, edited name and edited scope; sort priority a strictly monotone function of the origin class (same file < conftest < plugin < third-party) for all flag combinations; the list pipeline on one concrete 4-candidate case.",
         "get_completion_context (where completion is offered) walks the AST and is out of solver reach (harnesses kept under props=ATTEMPT); make_sort_text / make_fixture_detail go through format! (stubbed; their text is not encoded); candidate names are one letter; CompletionItem construction in the handlers is outside." + COMMON_NOTE),
 "C19": ("DESIGN.md §4 C19, §9.8", "Configuration half only: Config::from_raw (text of src/config/mod.rs extracted from the current tree at every run, because from_raw / RawConfig are private) executed concretely through CBMC on two raw tables: unknown diagnostic codes (two unknown words, the empty string) are dropped one by one while the documented codes around them stay disabled and the other settings arrive unchanged; an invalid glob between two valid ones is dropped alone, the valid ones still match, and the diagnostic codes next to it stay in force. Symbolic harnesses: for EVERY valid UTF-8 string of exactly 6 and of exactly 7 bytes (5 in the thorough tier) as an unknown code, from_raw does not panic, drops it, and keeps the documented code after it. is_diagnostic_disabled / should_exclude / should_skip_plugin are the real functions.",
         "Concrete tables (a symbolic 14-byte code text exceeded 12 GB: kept as props=ATTEMPT); the TOML parse of untrusted text (Config::parse), publish_diagnostics_for_file, did_open / did_change sequencing and 'the diagnostics the client last received' live behind the tokio Backend / a full TOML parser and are NOT encoded — a change there is invisible to this check." + COMMON_NOTE),
 "C20": ("DESIGN.md §4 C20, §9", "Library half: get_unused_fixtures lists D iff D is not third-party, not autouse and find_references_for_definition(D) is empty, each (file, name) once, sorted — decided per world arm with autouse flags symbolic. Lean arms: one call of the real get_unused_fixtures on concrete override layouts compared with the reference lookup.",
         "Text/JSON rendering and exit codes (src/main.rs) not encoded; <= 3 definitions per world (std HashMap<(PathBuf,String)> cost)." + COMMON_NOTE),
}
READY = set(os.environ.get("PLSV_READY", "").split(",")) if os.environ.get("PLSV_READY") else None
try:
    READY = set(json.load(open(os.path.join(V, "tools", "ready.json"))))
except Exception:
    READY = set()
NOT_APPLICABLE = {
 "C17": "warning half: scan_function_body_for_undeclared_fixtures walks function-body ASTs (data-carrying enums = non-constant unions for CBMC, see C03) and is out of reach; quick-fix half: get_function_param_insertion_info is text search (`lines()`, `find(\"):\")`, `find('(')`, slicing) whose propositional encoding exceeded 10 GB even on five concrete signature templates executed in sequence, and ran past 15 min on a 5-byte symbolic line — measured, harnesses kept under props=ATTEMPT (natively they confirm the insertion defects listed in DESIGN.md §9.4)",
 "C03": "the property is about what the analyzer extracts from a parsed file; the rustpython AST is a tree of data-carrying enums (unions with pointers for CBMC): every node read is non-constant, the analyzer explores every statement/expression kind at every node and the recursive drop glue of the tree alone does not finish — measured: analyze_file on a 3-line fixture file > 14 min / > 8 GB, on an empty or comment-only file 40 s. Only trivial ASTs are within reach, which says nothing about extraction (harnesses kept under props=ATTEMPT, see DESIGN.md §9.2)",
 "C09": "needs interleavings at map-operation granularity of two running analyses; Kani/CBMC execute one thread and no thread-aware solver for Rust is installed; re-sequencing cut-up pieces by hand would be a model, not the real code",
 "C14": "transitive import closure runs over the file system and the parser at every node and through std HashSet/SipHash; with both replaced by oracles nothing of the real logic remains within solver reach",
}
PENDING = {}  # filled below: properties designed as claimable (DESIGN.md) whose check is not built yet

def main():
    props = [json.loads(l) for l in open(os.path.join(V, "properties.jsonl"))]
    checks = []
    na = []
    for p in props:
        i = p["id"]
        if i in CLAIMED and i in READY:
            ref, text, note = CLAIMED[i]
            checks.append({
                "property_id": i,
                "quick_cmd": f"./check {i} --tier quick",
                "thorough_cmd": f"./check {i} --tier thorough",
                "evidence_file": f"/verif/evidence/{i}.json",
                "replay_cmd_template": "./check --replay {path}",
                "engine": "kani-cbmc",
                "level_claimed": {"category": "model_checking", "text": text, "design_ref": ref},
                "level_note": note,
                "technique": TECH,
            })
        elif i in NOT_APPLICABLE:
            na.append({"property_id": i, "reason": NOT_APPLICABLE[i]})
        else:
            na.append({"property_id": i, "reason": "check not built yet in this framework (designed as claimable in DESIGN.md §4; not claimed until its harnesses are committed)"})
    m = {
        "version": 1,
        "setup_cmd": "./check --setup",
        "hooks": {
            "guard": "pytest_language_server_verif",
            "enable": "RUSTFLAGS=\"--cfg pytest_language_server_verif\" (set by ./check for the solver build; the harness crate mounts /repo/src/** by #[path])",
            "baseline_off_cmd": "cd /repo && cargo nextest run --workspace --no-fail-fast --tool-config-file pb:/w/lib/nextest.toml --profile pb --test-threads 8 --offline",
            "source_commits": ["12fd1b6", "7a5d2c5", "f9643ed"],
            "add_only": True,
        },
        "engines": [
            {"name": "kani-cbmc", "path": "/verif/kani", "serves_properties": sorted(READY), "kind_free_text": "Kani 0.68.0 codegen of the mounted repo sources + goto-cc/goto-instrument/cbmc 6.11.0 (CaDiCaL), driven by /verif/check"},
            {"name": "native-replay", "path": "/verif/replay", "serves_properties": sorted(READY), "kind_free_text": "same harness sources compiled natively against the real dependency set; replays solver witnesses and runs fidelity gates"},
        ],
        "checks": checks,
        "not_applicable": na,
        "notes": "All checks are solver-based (Kani/CBMC). Exit 0 = held on everything explored (UNDECIDED harnesses are listed in the evidence and lower `discharged`), exit 1 = VIOLATION reproduced natively, exit 2 = inconclusive infrastructure problem.",
    }
    json.dump(m, open(os.path.join(V, "MANIFEST.json"), "w"), indent=1)
    print("claimed", [c["property_id"] for c in checks], "n/a", len(na))

if __name__ == "__main__":
    main()
