#!/usr/bin/env python3
"""Regenerates /verif/MANIFEST.json from the table below (kept in one place so it is always valid)."""
import json, os
V = os.path.dirname(os.path.dirname(os.path.abspath(__file__)))

TECH = "bounded symbolic execution of the real Rust code (Kani 0.68 codegen -> CBMC 6.11 / CaDiCaL, unwinding assertions on); every counterexample replayed natively against the real dependency set"
COMMON_NOTE = " Trusted base: sequential dashmap/tracing/once_cell shims in the solver build (real crates in replay), environment stubs listed per harness in the evidence, rustpython parser replaced by an oracle generated from the real parser's output and re-checked natively (gate `oracle`). Handler code written inline in src/providers/*.rs and src/main.rs is outside the encoded program."
CLAIMED = {
 "C01": ("DESIGN.md §4 C01, §9", "Bounded model checking of the real resolver cascade (find_closest_definition) and position lookup (find_fixture_definition): one SAT query per layout arm decides the comparison with an independent model of pytest's lookup for every value of the symbolic attributes (definition lines, import bits and statement form, third-party-is-plugin flag, recorded usage spans). Exhaustive inside each arm; the arm list (registration orders x providers, depth <= 3 conftest levels) is finite and listed in the evidence.",
         "Import relation is an oracle in the solver build (the import walk is C14, not applicable) and the real walk in native replay; cursor columns are concrete per harness (a symbolic column could not be decided), recorded spans symbolic." + COMMON_NOTE),
 "C02": ("DESIGN.md §4 C02, §9", "Override chains (length 2..3 over same file / conftest levels / plugin / third-party): one position query per harness on the real find_fixture_definition / find_fixture_or_definition_at_position with the recorded parameter / name span symbolic, plus find_references_for_definition of every link against the reference binding; decided by CBMC per arm.",
         "Chains of length <= 3, concrete generated texts, one concrete cursor column per harness." + COMMON_NOTE),
 "C03": ("DESIGN.md §4 C03, §9", "Post-parser extraction: the real analyze_file is symbolically executed on documents of a version table (parser replaced by an oracle holding the real parser's ASTs) and the recorded definitions/usages are compared record by record with a hand-written reference extraction of the documented pytest forms.",
         "Documents are the D_* texts of kani/oracle_table.py only (decorator spellings, async, class-nested, name=, assignment style, generators, annotations, docstring layout); the parser itself is trusted (gate `oracle`); not a comparison with CPython over all sources." + COMMON_NOTE),
 "C04": ("DESIGN.md §4 C04, §9", "Cross-check of two real code paths per world: a usage is listed by find_references_for_definition(D) iff find_fixture_definition on it lands on D, no duplicates, unresolved usages nowhere; reverse index == usages after analyze_file histories; CLI unused list vs reference sets.",
         "Worlds: shadowing, override, sibling-first and usage-above-override layouts with concrete texts; code-lens / call-hierarchy formatting (handlers) not encoded." + COMMON_NOTE),
 "C05": ("DESIGN.md §4 C05, §9", "Cross-check without reference model: for each world arm the definition picked by navigation (find_closest_definition), outgoing calls (resolve_fixture_for_file), implementation/prepare (find_fixture_or_definition_at_position) and the entry in get_available_fixtures are compared for every value of the symbolic attributes; at most one entry per name.",
         "std HashSet inside compute_available_fixtures limits worlds to one fixture name; get_imported_fixtures replaced by the import oracle." + COMMON_NOTE),
 "C06": ("DESIGN.md §4 C06, §9", "Histories of full-text versions through the real analyze_file over the parser oracle: after each 2-step history (second step chosen symbolically among three versions incl. unparsable / empty / comment-only / rename / same-name-twice) every map's records for the file equal what a FRESH index records for the latest valid version (expectation generated natively from the current tree by the real analyzer).",
         "Histories of length 2 over a 13-version table, two files; versions outside the table and longer histories are outside the claim." + COMMON_NOTE),
 "C07": ("DESIGN.md §4 C07, §9", "Warm vs cold: after analyse / warm query / edit (symbolic choice) the answer of get_available_fixtures equals the answer after dropping every cache; closing either document (cleanup_file_cache) leaves resolution and the per-file view unchanged.",
         "Eviction threshold (2000 files) not reachable; import-only edits need the import walk (C14) and are outside." + COMMON_NOTE),
 "C08": ("DESIGN.md §4 C08, §9", "Registration-order independence: the same content built in two registration orders gives the same resolution (pairs of orders per content, attributes symbolic), plus every C01 arm that exists in several orders and the C16 order pairs.",
         "Orders are the listed pairs/arms (all 6 orders for the three-conftest chain in the thorough tier); hash-seed dependent std HashMap iteration inside cycle detection is exercised with one fixed seed only." + COMMON_NOTE),
 "C10": ("DESIGN.md §4 C10, §9", "The two SERIAL orders of {scan worker: analyze_file_fresh(F, disk)} and {didOpen: analyze_file(F, buffer)} with buffer/disk versions chosen symbolically, followed by one further change: the index must describe the buffer exactly once (compared with fresh-state expectations).",
         "Interleavings inside an analysis are not explored (no concurrency model, same reason as C09); symlinked paths (canonicalisation) are outside (Path::canonicalize stubbed)." + COMMON_NOTE),
 "C11": ("DESIGN.md §4 C11, §9", "Panic-freedom of the string/offset kernels applied to untrusted or stale data, decided by CBMC over symbolic bytes (any valid UTF-8 up to 3-4 bytes, template classes with multi-byte characters, symbolic alphabets) and unconstrained offsets; Rust's own panics, bounds and overflow checks are the assertion.",
         "Library kernels only (extract_word_at_position, parameter_has_annotation, format_docstring, line index arithmetic, get_function_param_insertion_info, position queries on stale spans, completion text fallback); text lengths as stated per harness." + COMMON_NOTE),
 "C12": ("DESIGN.md §4 C12, §9", "Lock discipline: the sequential DashMap stand-in asserts in every write-locking operation that no guard of the same map is live on the calling path (shard-independent statement) — active in every harness of every family; termination: unwinding assertions on compute_fixture_cycles over cyclic dependency graphs and on the conftest walk.",
         "Single-threaded paths only (no lock-order inversion across threads); import-graph cycles need the import walk (C14)." + COMMON_NOTE),
 "C15": ("DESIGN.md §4 C15, §9", "Recorded positions: line-index arithmetic against its specification for every sorted index (<= 4 lines) and offset; find_function_name_position on def-line templates; usage spans recorded by the real analyzer for non-ASCII prefixes (UTF-16 expectation) and string-literal forms, compared with hand-computed token spans.",
         "Positions as recorded by the library; Range construction and selection ranges in handlers are outside." + COMMON_NOTE),
 "C16": ("DESIGN.md §4 C16, §9", "Cycle and scope-mismatch diagnostics of the real detect_fixture_cycles / detect_scope_mismatches_in_file against a reference dependency graph whose edges are resolved per depending file; all 25 scope pairs and definition lines symbolic per graph arm; both registration orders.",
         "<= 3 fixture names, <= 3 definitions per arm (std HashMap/HashSet cost); one fixed hash seed." + COMMON_NOTE),
 "C17": ("DESIGN.md §4 C17, §9", "Undeclared-fixture scan through the real analyze_file (parser oracle) on a document using a visible fixture in six expression positions next to a parameter, an invisible fixture, an unknown name, a module-level name and a local: findings compared exactly with the hand-written expectation; insertion point + derived edit on signature templates compared with the expected edited text; panic-freedom of the insertion scan over a symbolic alphabet.",
         "One scan document, template signatures; the code-action handler's own text search is outside." + COMMON_NOTE),
 "C18": ("DESIGN.md §4 C18, §9", "Completion context classification of the real get_completion_context for cursor lines of a table document (AST path via parser oracle) and of incomplete documents (text fallback), chosen by symbolic selector; offered set: get_available_fixtures vs navigation per world arm (shared with C05).",
         "Filter/sort helpers in src/providers/completion.rs (binary crate, tower-lsp types) are not encoded; documents outside the table are outside." + COMMON_NOTE),
 "C20": ("DESIGN.md §4 C20, §9", "Library half: get_unused_fixtures lists D iff D is not third-party, not autouse and find_references_for_definition(D) is empty, each (file, name) once, sorted — decided per world arm with autouse flags symbolic.",
         "Text/JSON rendering and exit codes (src/main.rs) not encoded; <= 3 definitions per world (std HashMap<(PathBuf,String)> cost)." + COMMON_NOTE),
}
READY = set(os.environ.get("PLSV_READY", "").split(",")) if os.environ.get("PLSV_READY") else None
try:
    READY = set(json.load(open(os.path.join(V, "tools", "ready.json"))))
except Exception:
    READY = set()
NOT_APPLICABLE = {
 "C09": "needs interleavings at map-operation granularity of two running analyses; Kani/CBMC execute one thread and no thread-aware solver for Rust is installed; re-sequencing cut-up pieces by hand would be a model, not the real code",
 "C13": "the decision logic is written inline in the WalkDir loop of scan_workspace_with_excludes (FFI directory walking, cannot be stubbed at the needed granularity); the only callable kernel does not decide the property",
 "C14": "transitive import closure runs over the file system and the parser at every node and through std HashSet/SipHash; with both replaced by oracles nothing of the real logic remains within solver reach",
 "C19": "publish_diagnostics_for_file and did_open/did_change sequencing live in the tokio Backend (needs a live tower-lsp Client); Config::parse is a full TOML parse of untrusted text; neither can be symbolically executed here",
}
PENDING = {}  # filled below: properties designed as claimable (DESIGN.md) whose check is not built yet

def main():
    props = [json.loads(l) for l in open(os.path.join(V, "properties.jsonl"))]
    checks = []
    na = []
    for p in props:
        i = p["id"]
        if i in CLAIMED and i in READY:
            ref, text, note = CLAIMED[i]
            checks.append({
                "property_id": i,
                "quick_cmd": f"./check {i} --tier quick",
                "thorough_cmd": f"./check {i} --tier thorough",
                "evidence_file": f"/verif/evidence/{i}.json",
                "replay_cmd_template": "./check --replay {path}",
                "engine": "kani-cbmc",
                "level_claimed": {"category": "model_checking", "text": text, "design_ref": ref},
                "level_note": note,
                "technique": TECH,
            })
        elif i in NOT_APPLICABLE:
            na.append({"property_id": i, "reason": NOT_APPLICABLE[i]})
        else:
            na.append({"property_id": i, "reason": "check not built yet in this framework (designed as claimable in DESIGN.md §4; not claimed until its harnesses are committed)"})
    m = {
        "version": 1,
        "setup_cmd": "./check --setup",
        "hooks": {
            "guard": "pytest_language_server_verif",
            "enable": "RUSTFLAGS=\"--cfg pytest_language_server_verif\" (set by ./check for the solver build; the harness crate mounts /repo/src/** by #[path])",
            "baseline_off_cmd": "cd /repo && cargo nextest run --workspace --no-fail-fast --tool-config-file pb:/w/lib/nextest.toml --profile pb --test-threads 8 --offline",
            "source_commits": ["12fd1b6"],
            "add_only": True,
        },
        "engines": [
            {"name": "kani-cbmc", "path": "/verif/kani", "serves_properties": sorted(READY), "kind_free_text": "Kani 0.68.0 codegen of the mounted repo sources + goto-cc/goto-instrument/cbmc 6.11.0 (CaDiCaL), driven by /verif/check"},
            {"name": "native-replay", "path": "/verif/replay", "serves_properties": sorted(READY), "kind_free_text": "same harness sources compiled natively against the real dependency set; replays solver witnesses and runs fidelity gates"},
        ],
        "checks": checks,
        "not_applicable": na,
        "notes": "All checks are solver-based (Kani/CBMC). Exit 0 = held on everything explored (UNDECIDED harnesses are listed in the evidence and lower `discharged`), exit 1 = VIOLATION reproduced natively, exit 2 = inconclusive infrastructure problem.",
    }
    json.dump(m, open(os.path.join(V, "MANIFEST.json"), "w"), indent=1)
    print("claimed", [c["property_id"] for c in checks], "n/a", len(na))

if __name__ == "__main__":
    main()
