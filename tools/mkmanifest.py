#!/usr/bin/env python3
"""Regenerates /verif/MANIFEST.json from the table below (kept in one place so it is always valid)."""
import json, os
V = os.path.dirname(os.path.dirname(os.path.abspath(__file__)))

CLAIMED = {
 # id: (design_ref, text, note)
 "C01": ("DESIGN.md §4 C01", "Bounded model checking of the real resolver cascade (find_closest_definition / find_fixture_definition) with Kani/CBMC: one SAT query per layout arm decides the comparison with an independent model of pytest's lookup for every value of the symbolic attributes (definition lines, import bits, cursor column). Exhaustive inside each arm, the arm list is finite and listed in the evidence.",
         "Skeleton list is finite (depth 2 tree, <=4 same-named definitions); import relation is an oracle (the import walk itself is C14, not applicable); dashmap replaced by a sequential shim; Path::exists stubbed."),
 "C11": ("DESIGN.md §4 C11", "Panic-freedom of the string/offset kernels the handlers apply to untrusted or stale data, decided by CBMC over symbolic bytes (any valid UTF-8 up to the stated length) and unconstrained offsets; Rust's own panics, bounds and overflow checks are the assertion.",
         "Library kernels only (handlers' inline slicing and the parser are outside); text length <= 4 symbolic bytes or templates; Unicode tables replaced by a sound over-approximation."),
}
NOT_APPLICABLE = {
 "C09": "needs interleavings at map-operation granularity of two running analyses; Kani/CBMC execute one thread and no thread-aware solver for Rust is installed; re-sequencing cut-up pieces by hand would be a model, not the real code",
 "C13": "the decision logic is written inline in the WalkDir loop of scan_workspace_with_excludes (FFI directory walking, cannot be stubbed at the needed granularity); the only callable kernel does not decide the property",
 "C14": "transitive import closure runs over the file system and the parser at every node and through std HashSet/SipHash; with both replaced by oracles nothing of the real logic remains within solver reach",
 "C19": "publish_diagnostics_for_file and did_open/did_change sequencing live in the tokio Backend (needs a live tower-lsp Client); Config::parse is a full TOML parse of untrusted text; neither can be symbolically executed here",
}
PENDING = {}  # filled below: properties designed as claimable (DESIGN.md) whose check is not built yet

def main():
    props = [json.loads(l) for l in open(os.path.join(V, "properties.jsonl"))]
    checks = []
    na = []
    for p in props:
        i = p["id"]
        if i in CLAIMED:
            ref, text, note = CLAIMED[i]
            checks.append({
                "property_id": i,
                "quick_cmd": f"./check {i} --tier quick",
                "thorough_cmd": f"./check {i} --tier thorough",
                "evidence_file": f"/verif/evidence/{i}.json",
                "replay_cmd_template": "./check --replay {path}",
                "engine": "kani-cbmc",
                "level_claimed": {"category": "model_checking", "text": text, "design_ref": ref},
                "level_note": note,
                "technique": "bounded symbolic execution of the real Rust code (Kani 0.68 -> CBMC 6.11, CaDiCaL), counterexamples replayed natively",
            })
        elif i in NOT_APPLICABLE:
            na.append({"property_id": i, "reason": NOT_APPLICABLE[i]})
        else:
            na.append({"property_id": i, "reason": "check not built yet in this framework (designed as claimable in DESIGN.md §4; not claimed until its harnesses are committed)"})
    m = {
        "version": 1,
        "setup_cmd": "./check --setup",
        "hooks": {
            "guard": "pytest_language_server_verif",
            "enable": "RUSTFLAGS=\"--cfg pytest_language_server_verif\" (set by ./check for the solver build; the harness crate mounts /repo/src/** by #[path])",
            "baseline_off_cmd": "cd /repo && cargo nextest run --workspace --no-fail-fast --tool-config-file pb:/w/lib/nextest.toml --profile pb --test-threads 8 --offline",
            "source_commits": [],
            "add_only": True,
        },
        "engines": [
            {"name": "kani-cbmc", "path": "/verif/kani", "serves_properties": sorted(CLAIMED), "kind_free_text": "Kani 0.68.0 codegen of the mounted repo sources + goto-cc/goto-instrument/cbmc 6.11.0 (CaDiCaL), driven by /verif/check"},
            {"name": "native-replay", "path": "/verif/replay", "serves_properties": sorted(CLAIMED), "kind_free_text": "same harness sources compiled natively against the real dependency set; replays solver witnesses and runs fidelity gates"},
        ],
        "checks": checks,
        "not_applicable": na,
        "notes": "All checks are solver-based (Kani/CBMC). Exit 0 = held on everything explored (UNDECIDED harnesses are listed in the evidence and lower `discharged`), exit 1 = VIOLATION reproduced natively, exit 2 = inconclusive infrastructure problem.",
    }
    json.dump(m, open(os.path.join(V, "MANIFEST.json"), "w"), indent=1)
    print("claimed", [c["property_id"] for c in checks], "n/a", len(na))

if __name__ == "__main__":
    main()
