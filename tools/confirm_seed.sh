#!/bin/bash
# confirm_seed.sh <worktree> <n> : confirm change<n>.diff + demo<n>.rs from <worktree>/seed_out
#   (1) unchanged tree: demo passes; (2) with change: builds, the 709 existing tests pass, demo fails.
set -u
WT=$1; N=$2; SO=$WT/seed_out
cd $WT || exit 9
export CARGO_NET_OFFLINE=true
git checkout -q -- . ; rm -f tests/seed_demo_*.rs
cp $SO/demo$N.rs tests/seed_demo_$N.rs
echo "== unchanged tree: demo must pass"
cargo test --offline --test seed_demo_$N 2>&1 | grep -E "^test result|error(\[|:)" | head -5
git apply $SO/change$N.diff || { echo "APPLY FAILED"; exit 3; }
echo "== changed tree: demo must fail"
cargo test --offline --test seed_demo_$N 2>&1 | grep -E "^test result|error(\[|:)" | head -5
rm -f tests/seed_demo_$N.rs
echo "== changed tree: existing suite must pass"
cargo nextest run --workspace --no-fail-fast --tool-config-file pb:/w/lib/nextest.toml --profile pb --test-threads 8 --offline 2>&1 | grep -E "Summary|FAIL|error(\[|:)" | head -8
git checkout -q -- . ; git status --short | grep -v seed_out | head
