#!/usr/bin/env python3
"""Regenerates the two data-driven sections of DESIGN.md from what the checks wrote:
   §9.5 seeded changes (from seeded/*/runs.log via tools/seed_table.py) and §9.7 quick-tier timings (from evidence/*.json).
   Both are bracketed by HTML comment markers so that the rest of the document is left alone."""
import json, os, subprocess, glob, re
V = "/verif"
p = os.path.join(V, "DESIGN.md")
t = open(p).read()

table = subprocess.run(["python3", os.path.join(V, "tools", "seed_table.py")], capture_output=True, text=True).stdout
s95 = """### 9.5 Seeded changes: which check catches which

Each seeded change was written by a fresh sub-agent that was given ONE property text and its own scratch worktree — nothing
from /verif —, compiles, keeps the 709 tests green, and comes with a demonstration test that passes on the unchanged tree and
fails with the change (re-confirmed here with `tools/confirm_seed.sh`; stored under `seeded/<id>/` with the agent's notes).
They are evaluated with `tools/seedrun.sh` on a scratch copy (git worktree of /repo + patch, copy of /verif pointing at it;
/repo itself is never patched); every run is appended to `seeded/<id>/runs.log`, and "caught" means: the registered check
command printed `VIOLATION property=… replay=…` for a solver counterexample that reproduced natively, and exited 1. Three
patches had to be re-applied by hand after the hook / fix commits moved their context (`patch.orig.diff` keeps the original).

""" + table + """
What the misses have in common: (1) the change lives in `imports.rs` or behind `canonicalize` / the file system — oracles
or identity stand-ins in the solver build (C14 is claimed for the module-to-file step only, for the same reason); (2) it needs the analyzer to walk
a non-trivial AST (C03 / C17 are claimed for one text kernel each, parts of C06 / C07 / C15 / C18 / C19); (3) the layout needs three or more
resolver calls on PathBuf-keyed state and the formula exceeds the memory cap — reported as `UNDECIDED`, never as a pass.
A mutation can also make its own harness undecidable (C08-refs-per-directory-memo adds a `HashMap<PathBuf, _>` memo: the
lean arms that take 92 s on the unchanged tree exceed 10 GB with it).
"""

rows = []
tot = 0.0
for f in sorted(glob.glob(os.path.join(V, "evidence", "C*.json"))):
    e = json.load(open(f))
    c = e.get("coverage", {})
    rows.append("| %s | %s | %s | %s | %s | %.0f s |" % (
        e.get("property_id", os.path.basename(f)[:-5]), c.get("obligations"), c.get("discharged"), len(c.get("undecided", [])),
        ", ".join(sorted(set(c.get("known_findings_reported", [])))) or "—", e.get("wall_s", 0)))
    tot += e.get("wall_s", 0)
s97 = """### 9.7 Quick-tier cost on this box (16 cores, 62 GB), from the committed evidence files

| property | harnesses (obligations) | discharged | undecided | known findings reported | wall |
|---|---|---|---|---|---|
""" + "\n".join(rows) + """

Sum of the quick commands run one after the other: ≈ %.0f min (each run = regenerate oracle + extraction, native replay build,
fidelity gates, one Kani codegen for the property's harnesses, then the CBMC jobs in parallel under memory admission).
The thorough tier adds the arms tagged `tier=thorough` and doubles every wall cap (`PLSV_TCAP_MULT`); arms that hit a cap are
listed as `UNDECIDED` in the output and in `coverage.undecided`, lower `discharged`, and never count as a pass.
""" % (tot / 60.0)

def put(tag, body):
    global t
    a, b = f"<!-- BEGIN {tag} -->", f"<!-- END {tag} -->"
    block = a + "\n" + body.rstrip("\n") + "\n" + b + "\n"
    if a in t:
        i, j = t.index(a), t.index(b) + len(b) + 1
        t = t[:i] + block + t[j:]
    else:
        # first time: place before §9.6
        k = t.index("### 9.6 False alarms met while building")
        t = t[:k] + block + "\n" + t[k:]

# §5: harness counts per property and tier, from the harness metadata
import collections
q = collections.Counter(); th = collections.Counter()
for f in glob.glob(os.path.join(V, "kani", "src", "h_*.rs")):
    for l in open(f):
        m = re.match(r"\s*/// @harness (.*)", l)
        if m:
            kv = dict(x.split("=", 1) for x in m.group(1).split())
            for pr in kv["props"].split(","):
                (q if kv.get("tier", "quick") == "quick" else th)[pr] += 1
def fix_row(m):
    pid = m.group(1)
    if pid in q or pid in th:
        return m.group(0)[: m.group(0).rindex("|", 0, len(m.group(0)) - 1) + 1] + f" {q[pid]} / {th[pid]} |"
    return m.group(0)
t = re.sub(r"(?m)^\| (C\d\d) \| claimed[^\n]*\|$", fix_row, t)
put("S95", s95)
put("S97", s97)
open(p, "w").write(t)
print("DESIGN.md updated: §9.5 (%d table lines), §9.7 (%d properties)" % (table.count("\n"), len(rows)))
