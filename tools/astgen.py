#!/usr/bin/env python3
"""Generate kani/src/gen/oracle.rs: for every text of the version table (kani/oracle_table.py) the Rust
constructor of the AST the REAL rustpython parser produces for it (obtained by running the native `astgen`
binary, which prints `{:?}` of parse(text)), plus `oracle_parse`, the stand-in for
`rustpython_parser::parse` used by the solver build. The native gate `oracle` re-checks
oracle_parse(text) == parse(text) for every entry.
"""
import json, os, re, subprocess, sys, glob

V = os.path.dirname(os.path.dirname(os.path.abspath(__file__)))

# ---------------------------------------------------------------- tokenizer / parser of Rust Debug output
TOK = re.compile(r'\s*(?:(?P<str>"(?:[^"\\]|\\.)*")|(?P<range>\d+\.\.\d+)|(?P<num>-?\d+(?:\.\d+)?)|(?P<id>[A-Za-z_][A-Za-z0-9_]*)|(?P<p>[(){}\[\],:]))')

def tokenize(s):
    out, i = [], 0
    while i < len(s):
        m = TOK.match(s, i)
        if not m:
            if s[i:].strip() == "":
                break
            raise ValueError("cannot tokenize at " + s[i:i + 40])
        i = m.end()
        k = m.lastgroup
        out.append((k, m.group(k)))
    return out

class P:
    def __init__(self, toks):
        self.t = toks; self.i = 0
    def peek(self):
        return self.t[self.i] if self.i < len(self.t) else (None, None)
    def eat(self, v=None):
        k, x = self.t[self.i]
        if v is not None and x != v:
            raise ValueError(f"expected {v} got {x} at {self.i}")
        self.i += 1
        return k, x
    def value(self):
        k, x = self.peek()
        if k == "str": self.eat(); return ("str", x)
        if k == "range": self.eat(); a, b = x.split(".."); return ("range", int(a), int(b))
        if k == "num": self.eat(); return ("num", x)
        if k == "p" and x == "(":
            self.eat("("); self.eat(")"); return ("unit",)
        if k == "p" and x == "[":
            self.eat("[")
            items = []
            while self.peek()[1] != "]":
                items.append(self.value())
                if self.peek()[1] == ",": self.eat(",")
            self.eat("]")
            return ("list", items)
        if k == "id":
            self.eat()
            nk, nx = self.peek()
            if nx == "(":
                self.eat("(")
                args = []
                while self.peek()[1] != ")":
                    args.append(self.value())
                    if self.peek()[1] == ",": self.eat(",")
                self.eat(")")
                return ("tuple", x, args)
            if nx == "{":
                self.eat("{")
                fields = []
                while self.peek()[1] != "}":
                    _, fname = self.eat()
                    self.eat(":")
                    fields.append((fname, self.value()))
                    if self.peek()[1] == ",": self.eat(",")
                self.eat("}")
                return ("struct", x, fields)
            return ("ident", x)
        raise ValueError(f"unexpected token {k} {x}")

# ---------------------------------------------------------------- which fields are boxed (from the crate source)
def boxed_fields():
    src = glob.glob(os.path.expanduser("~/.cargo/registry/src/*/rustpython-ast-0.4.0/src/gen/generic.rs"))[0]
    text = open(src).read()
    boxed = {}
    for m in re.finditer(r"pub struct (\w+)<R = TextRange> \{(.*?)\n\}", text, re.S):
        name, body = m.group(1), m.group(2)
        for f in re.finditer(r"pub (\w+): ([^\n]+),", body):
            ty = f.group(2)
            boxed[(name, f.group(1))] = ty
    return boxed

BOXED = None
ENUM_OF = [("Stmt", "Stmt"), ("Expr", "Expr"), ("Mod", "Mod"), ("Pattern", "Pattern"), ("TypeParam", "TypeParam"), ("ExceptHandler", "ExceptHandler")]
OPS = {("ExprBinOp", "op"): "Operator", ("StmtAugAssign", "op"): "Operator", ("ExprBoolOp", "op"): "BoolOp",
       ("ExprUnaryOp", "op"): "UnaryOp", ("ExprCompare", "ops"): "CmpOp"}

def rs_str(lit):
    return lit  # Rust Debug string literals are valid Rust string literals

def conv(v, ctx=None):
    """ctx = (struct_name, field_name) of the place this value fills"""
    ty = BOXED.get(ctx, "") if ctx else ""
    k = v[0]
    if k == "unit":
        return "Default::default()"
    if k == "range":
        return f"r({v[1]}, {v[2]})"
    if k == "str":
        if ctx and ctx[1] == "file_path": return "std::path::PathBuf::from(p)"
        return f"{rs_str(v[1])}.to_string()"
    if k == "num":
        return v[1]
    if k == "list":
        inner_ctx = ctx
        return "vec![" + ", ".join(conv(x, inner_ctx) for x in v[1]) + "]"
    if k == "ident":
        x = v[1]
        if x == "None":
            if ctx == ("ExprConstant", "value"): return "ast::Constant::None"
            return "None"
        if x in ("true", "false"): return x
        if x in ("Load", "Store", "Del"): return f"ast::ExprContext::{x}"
        if ctx and ctx[1] == "scope": return f"crate::fixtures::FixtureScope::{x}"
        if ctx in OPS: return f"ast::{OPS[ctx]}::{x}"
        if x == "Ellipsis": return "ast::Constant::Ellipsis"
        raise ValueError(f"bare ident {x} in {ctx}")
    if k == "tuple":
        name, args = v[1], v[2]
        if name == "Some":
            inner = conv(args[0], ctx)
            if "Box<" in ty: inner = f"Box::new({inner})"
            return f"Some({inner})"
        if name == "Identifier":
            return f"ast::Identifier::new({rs_str(args[0][1])})"
        if name == "Int" and ctx and ctx[1] == "level":
            return f"ast::Int::new({args[0][1]})"
        if ctx == ("ExprConstant", "value") or name in ("Str", "Bool", "Int", "Float", "Bytes") and ctx and ctx[0] == "ExprConstant":
            if name == "Str": return f"ast::Constant::Str({rs_str(args[0][1])}.to_string())"
            if name == "Bool": return f"ast::Constant::Bool({args[0][1]})"
            if name == "Int": return f"ast::Constant::Int(({args[0][1]}i64).into())"
            if name == "Float": return f"ast::Constant::Float({args[0][1]})"
            raise ValueError(f"constant {name}")
        # enum variant wrapping a struct: FunctionDef(StmtFunctionDef {..})
        if len(args) == 1 and args[0][0] == "struct":
            sname = args[0][1]
            for pref, en in ENUM_OF:
                if sname.startswith(pref) and sname[len(pref):] == name:
                    return f"ast::{en}::{name}({conv(args[0])})"
        raise ValueError(f"tuple {name} in {ctx}")
    if k == "struct":
        name, fields = v[1], v[2]
        parts = []
        for fname, fv in fields:
            c = conv(fv, (name, fname))
            fty = BOXED.get((name, fname), "")
            if fty.startswith("Box<") and fv[0] != "unit":
                c = f"Box::new({c})"
            parts.append(f"{fname}: {c}")
        if name in ("FixtureDefinition", "FixtureUsage", "UndeclaredFixture"):
            return f"crate::fixtures::{name} {{ " + ", ".join(parts) + " }"
        if name == "Fresh":
            return "Fresh { " + ", ".join(parts) + " }"
        return f"ast::{name} {{ " + ", ".join(parts) + " }"
    raise ValueError(str(v)[:80])


def main():
    global BOXED
    BOXED = boxed_fields()
    sys.path.insert(0, os.path.join(V, "kani"))
    import importlib
    table = importlib.import_module("oracle_table").TABLE
    build = os.environ.get("PLSV_BUILD", os.path.join(V, ".build"))
    env = dict(os.environ, CARGO_NET_OFFLINE="true")
    r = subprocess.run(["cargo", "build", "--offline", "-q", "--target-dir", os.path.join(build, "astgen")], cwd=os.path.join(V, "astgen"), env=env)
    if r.returncode != 0:
        sys.exit("astgen build failed")
    exe = os.path.join(build, "astgen", "debug", "astgen")
    out = ["// generated by tools/astgen.py from kani/oracle_table.py and the REAL parser's output — do not edit",
           "use rustpython_parser::ast;",
           "use rustpython_parser::text_size::{TextRange, TextSize};",
           "fn r(a: u32, b: u32) -> TextRange { TextRange::new(TextSize::new(a), TextSize::new(b)) }",
           "/// the records a fresh index holds for one file (real analyze_file run natively at generation time)",
           "pub struct Fresh { pub defs: Vec<crate::fixtures::FixtureDefinition>, pub usages: Vec<crate::fixtures::FixtureUsage>, pub undeclared: Vec<crate::fixtures::UndeclaredFixture>, pub imports: Vec<String>, pub def_names: Vec<String>, pub has_imports_entry: bool }", ""]
    lens = {}
    arms = []
    entries = []
    names = []
    for name, text in table:
        blen = len(text.encode('utf-8'))
        tmp = os.path.join(build, "astgen_in.py")
        open(tmp, "w").write(text)
        p = subprocess.run([exe, "ast", tmp], stdout=subprocess.PIPE, stderr=subprocess.PIPE, text=True)
        lit = json.dumps(text, ensure_ascii=False)  # a JSON string literal (raw UTF-8 kept) is a valid Rust string literal
        lit = re.sub(r"\\u([0-9a-fA-F]{4})", lambda m: "\\u{" + m.group(1) + "}", lit)
        out.append(f"pub const T_{name}: &str = {lit};")
        names.append(name)
        if p.returncode != 0:
            entries.append((blen, text.encode('utf-8'), name, "Err(perr())"))
            out.append(f"pub const OK_{name}: bool = false;")
            continue
        tree = P(tokenize(p.stdout.strip())).value()
        out.append(f"pub const OK_{name}: bool = true;")
        out.append(f"pub fn ast_{name.lower()}() -> ast::Mod {{ {conv(tree)} }}")
        entries.append((blen, text.encode('utf-8'), name, f"Ok(ast_{name.lower()}())"))
        # what a FRESH index records for this text (real analyze_file, natively, on the current tree)
        q = subprocess.run([exe, "fresh", "/x/" + ("conftest.py" if name.startswith("C_") else "t_u.py"), tmp], stdout=subprocess.PIPE, stderr=subprocess.PIPE, text=True)
        if q.returncode != 0:
            sys.exit(f"astgen fresh failed for {name}: {q.stderr[-400:]}")
        ftree = P(tokenize(q.stdout.strip())).value()
        out.append(f"pub fn fresh_{name.lower()}(p: &str) -> Fresh {{ {conv(ftree)} }}")
    def lookup_arms(ents):
        arms = []
        groups = {}
        for e in ents:
            groups.setdefault(e[0], []).append(e)
        for blen in sorted(groups):
            g = groups[blen]
            if len(g) == 1:
                arms.append(f"        {blen} => {g[0][3]},  // {g[0][2]}")
                continue
            # same length: discriminate by one byte position at which all members differ
            idx = next((i for i in range(blen) if len({m[1][i] for m in g}) == len(g)), None)
            if idx is None:
                sys.exit(f"oracle table: texts {[m[2] for m in g]} have the same length {blen} and no single distinguishing byte")
            inner = " ".join(f"{m[1][idx]} => {m[3]}," for m in g)
            arms.append(f"        {blen} => match source.as_bytes()[{idx}] {{ {inner} _ => Err(perr()) }},  // {[m[2] for m in g]}")
        return arms
    def lookup_fn(fname, ents, doc):
        return [f"/// {doc}",
                f"pub fn {fname}(source: &str, _mode: rustpython_parser::Mode, _path: &str) -> Result<ast::Mod, rustpython_parser::ParseError> {{",
                "    match source.len() {"] + lookup_arms(ents) + ["        _ => Err(perr()),", "    }", "}"]
    arms = lookup_arms(entries)
    # smaller stand-ins (a harness links only the ASTs it can reach): one per text family and one per text
    fams = {"hist": ("C_", "U_", "L_"), "docs": ("D_",), "world": ("W_",)}
    extra = []
    for fam, prefs in fams.items():
        extra += lookup_fn(f"oracle_parse_{fam}", [e for e in entries if e[2].startswith(prefs)], f"stand-in restricted to the {prefs} texts")
    for e in entries:
        extra += lookup_fn(f"oracle_only_{e[2].lower()}", [e], f"stand-in knowing only {e[2]}")
    out += ["", "fn perr() -> rustpython_parser::ParseError {",
            "    rustpython_parser::ParseError { error: rustpython_parser::ParseErrorType::Eof, offset: TextSize::new(0), source_path: String::new() }", "}",
            "/// stand-in for rustpython_parser::parse (solver build): table lookup by text length (plus one distinguishing byte where lengths collide)",
            "pub fn oracle_parse(source: &str, _mode: rustpython_parser::Mode, _path: &str) -> Result<ast::Mod, rustpython_parser::ParseError> {",
            "    match source.len() {"] + arms + ["        _ => Err(perr()),", "    }", "}"] + extra + [
            "pub const ALL: &[(&str, &str, bool)] = &["] + [f'    ("{n}", T_{n}, OK_{n}),' for n in names] + ["];", ""]
    path = os.path.join(V, "kani", "src", "gen", "oracle.rs")
    os.makedirs(os.path.dirname(path), exist_ok=True)
    new = "\n".join(out)
    if not (os.path.exists(path) and open(path).read() == new):
        open(path, "w").write(new)
    print(f"oracle.rs: {len(names)} texts")

if __name__ == "__main__":
    main()
