#!/usr/bin/env python3
"""store_seed.py <seed-id> <worktree> <n> <property> <needs...> : keep a confirmed seeded change under /verif/seeded/<seed-id>/"""
import sys, os, shutil, json
sid, wt, n, prop = sys.argv[1:5]
needs = " ".join(sys.argv[5:])
d = os.path.join("/verif/seeded", sid)
os.makedirs(d, exist_ok=True)
shutil.copy(f"{wt}/seed_out/change{n}.diff", f"{d}/patch.diff")
shutil.copy(f"{wt}/seed_out/demo{n}.rs", f"{d}/demo.rs")
notes = open(f"{wt}/seed_out/notes.md").read()
open(f"{d}/agent_notes.md", "w").write(notes)
log = f"/tmp/confirm-{prop}-{n}.log"
meta = {"seed": sid, "property": prop, "needs_to_manifest": needs,
        "confirmed_by": "tools/confirm_seed.sh (scratch worktree): demo passes on unchanged tree, fails with patch; 709 existing tests pass with patch",
        "confirm_log": open(log).read() if os.path.exists(log) else None,
        "detected_by": None}
json.dump(meta, open(f"{d}/meta.json", "w"), indent=1)
print("stored", d)
