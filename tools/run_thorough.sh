#!/bin/bash
# run the THOROUGH check of the given properties, one after the other; summary in .build/thorough.log
cd /verif
: > .build/thorough.log
for p in "$@"; do
  s=$(date +%s)
  PLSV_JOBS=${PLSV_JOBS:-10} ./check $p --tier thorough > .build/thorough_$p.log 2>&1
  rc=$?
  e=$(( $(date +%s) - s ))
  echo "$p exit=$rc wall=${e}s $(grep -E '^\[' .build/thorough_$p.log | tail -1)" >> .build/thorough.log
  grep -E "^(VIOLATION|KNOWN-FINDING|INCONCLUSIVE|UNDECIDED|NOTE)" .build/thorough_$p.log | cut -c1-220 >> .build/thorough.log
  mkdir -p .build/evidence_thorough && cp evidence/$p.json .build/evidence_thorough/ 2>/dev/null
  # the committed evidence is the quick tier's: put it back
  [ -f .build/evidence_quick/$p.json ] && cp .build/evidence_quick/$p.json evidence/$p.json
done
echo ALLDONE >> .build/thorough.log
