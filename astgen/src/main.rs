#![allow(dead_code, unused_imports, unused_variables)]
#[path = "/repo/src/config/mod.rs"]
pub mod config;
#[path = "/repo/src/fixtures/mod.rs"]
pub mod fixtures;
use std::path::PathBuf;

fn main() {
    let a: Vec<String> = std::env::args().collect();
    match a[1].as_str() {
        "ast" => {
            let src = std::fs::read_to_string(&a[2]).unwrap();
            match rustpython_parser::parse(&src, rustpython_parser::Mode::Module, "") {
                Ok(m) => println!("{:?}", m),
                Err(_) => std::process::exit(3),
            }
        }
        "fresh" => {
            let p = PathBuf::from(&a[2]);
            let src = std::fs::read_to_string(&a[3]).unwrap();
            let db = fixtures::FixtureDatabase::new();
            db.analyze_file(p.clone(), &src);
            let mut defs = Vec::new();
            let mut names: Vec<String> = db.definitions.iter().map(|e| e.key().clone()).collect();
            names.sort();
            for n in &names { for d in db.definitions.get(n).unwrap().iter() { if d.file_path == p { defs.push(d.clone()); } } }
            let usages = db.usages.get(&p).map(|u| u.value().clone()).unwrap_or_default();
            let undeclared = db.undeclared_fixtures.get(&p).map(|u| u.value().clone()).unwrap_or_default();
            let mut imports: Vec<String> = db.imports.get(&p).map(|s| s.value().iter().cloned().collect()).unwrap_or_default();
            imports.sort();
            let mut def_names: Vec<String> = db.file_definitions.get(&p).map(|s| s.value().iter().cloned().collect()).unwrap_or_default();
            def_names.sort();
            println!("Fresh {{ defs: {:?}, usages: {:?}, undeclared: {:?}, imports: {:?}, def_names: {:?}, has_imports_entry: {:?} }}",
                     defs, usages, undeclared, imports, def_names, db.imports.contains_key(&p));
        }
        _ => std::process::exit(2),
    }
}
