fn main() {
    let src = std::fs::read_to_string(std::env::args().nth(1).unwrap()).unwrap();
    let m = rustpython_parser::parse(&src, rustpython_parser::Mode::Module, "").unwrap();
    println!("{:?}", m);
}
